"""C15 — DataFrame cells round trip through row, cell and column access."""
from vlib.tok import f64, lst, s as S
from checks.C14 import value as typed_value, TYPES
ID = 'C15'
THEOREMS = ['Nix.C15.resize_preserves_surviving', 'Nix.C15.shrink_then_grow_zero', 'Nix.C15.writeCells_ok', 'Nix.C15.writeColumn_ok',
            'Nix.C15.readRow_spec', 'Nix.C15.readCells_spec', 'Nix.C15.readColumnRaw_spec', 'Nix.C15.column_oob_rejected',
            'Nix.C15.row_oob_rejected', 'Nix.C15.rejected_call_leaves_no_trace', 'Nix.C15.readonly_changes_nothing', 'Nix.C15.create_schema',
            'Nix.C15.resolve_sound', 'Nix.C15.step_agree', 'Nix.C15.history_agree', 'Nix.C15.cell_last_writer',
            'Nix.C15.history_readRow', 'Nix.C15.history_readCells', 'Nix.C15.history_readColumn', 'Nix.C15.unwritten_zero',
            'Nix.C15.uncovered_zero', 'Nix.C15.schema_roundtrip']
FLAVOUR = {'quick': 'plain', 'thorough': 'asan'}
RULE = ('random histories on one data frame: schema of 1-8 columns over the 7 cell types (names with blanks / UTF-8, units), row count changes '
        '(grow, shrink, to 0), writeRow (full and prefix), writeCells / writeCell (by name and by index, mixed), writeColumn (by name / index, '
        'offset, count 0 = all, explicit count), reads through readRow, readCells, readCell, readColumn (resize on / off, offset, explicit count, '
        'buffer longer than the request), schema and row count queries, close + reopen ro / rw; values are type extremes, NaN payloads, -0.0, '
        'empty / long / UTF-8 strings; a separate malformed stream (~18 %): rows past the end, column indices past the last column, unknown '
        'names, a column twice in one call, empty cell lists, rows longer than the schema, Nothing variants, String <-> number and number -> Bool '
        'type clashes, counts beyond the data, offsets beyond the rows, buffers too small, mutators on a read-only file, integer values written '
        'through another integer type; malformed schemas (no columns, Nothing / Float columns, duplicate and empty column names). The Lean '
        'frame model is the oracle (DIFF); the history rule of Spec/C15.lean (last covering write since the row was last outside the row '
        'count, else the fill value) is evaluated on every read the library answers (REL). non-trivial = a successful read after a successful write.')
TRUSTED = ['lean/NixModel/DataFrame.lean: the compound dataset behind a frame is an idealised table (H5Dset_extent keeps a prefix of rows and fills with zero / ""; partial-compound I/O transfers exactly the named members) — modelled, not verified',
           'HDF5 member conversion between numeric types for exactly representable values',
           'persistence across close + reopen is established by the correspondence run, not by proof']
ASSUMPTIONS = ['string cells contain no NUL byte', 'Bool columns are not accessed through writeColumn / readColumn (std::vector<bool> has no Hydra support)',
               'cross-type numeric access only for values exactly representable in both types']

COLNAMES = ['a', 'b', 'col c', 'ü€', 'x.y', 'Z', 'n1', 'n2', 'i', 'a ']
UNITS = ['', 'mV', 's', 'u s', 'µm']
INTS = ['Int32', 'UInt32', 'Int64', 'UInt64']

def raw(t, rng):
    return typed_value(t, rng).split(':', 1)[1]

def small(t, rng):
    return '%s:%d' % (t, rng.randint(0, 1000))

def history(rng, tier):
    ncols = rng.choice([1, 2, 2, 3, 3, 4, 5, 6, 8])
    names = rng.sample(COLNAMES, ncols) if ncols <= len(COLNAMES) else COLNAMES[:ncols]
    types = [rng.choice(TYPES) for _ in range(ncols)]
    cols = ['%s:%s:%s' % (S(n), S(rng.choice(UNITS)), t) for n, t in zip(names, types)]
    lines = ['df_new ' + lst(cols), 'df_cols', 'df_nrows']
    st = {'rows': 0, 'ro': False}

    def setrows(n):
        lines.append('df_rows %d' % n)
        if not st['ro']: st['rows'] = n
    setrows(rng.choice([0, 1, 2, 3, 5, 8, 12]))

    def ref(c):
        return 'n' + S(names[c]) if rng.random() < 0.5 else 'i%d' % c
    def arow():
        return rng.randrange(st['rows']) if st['rows'] else 0
    def noncol(kind='col'):
        cs = [c for c in range(ncols) if types[c] != 'Bool']
        return rng.choice(cs) if cs else None

    def malformed():
        k = rng.random()
        c = rng.randrange(ncols)
        if k < 0.10:
            lines.append('df_wrow %d %s' % (st['rows'] + rng.randint(0, 2), lst([typed_value(t, rng) for t in types])))
        elif k < 0.18:
            lines.append(rng.choice(['df_rrow %d', 'df_rcell %d i0', 'df_rcells %d ' + lst([S(names[0])])]) % (st['rows'] + rng.randint(0, 2)))
        elif k < 0.28:
            bad = ncols + rng.randint(0, 2)
            lines.append(rng.choice(['df_wcell %d %d %s' % (arow(), bad, typed_value(types[c], rng)),
                                     'df_wcells %d %s' % (arow(), lst(['i%d=%s' % (c, typed_value(types[c], rng)), 'i%d=Int32:1' % bad])),
                                     'df_rcell %d i%d' % (arow(), bad), 'df_colname %d' % bad,
                                     'df_wcol i%d Int32 [1,2] 0 0' % bad, 'df_rcol i%d Int32 2 1 0' % bad]))
        elif k < 0.40:
            u = S(rng.choice(['nope', 'A', names[0] + 'x', '']))
            lines.append(rng.choice(['df_wcells %d %s' % (arow(), lst(['n%s=Int32:1' % u])),
                                     'df_wcells %d %s' % (arow(), lst(['%s=%s' % (ref(c), typed_value(types[c], rng)), 'n%s=Double:%s' % (u, f64(1.5))])),
                                     'df_rcells %d %s' % (arow(), lst([S(names[c]), u])), 'df_rcell %d n%s' % (arow(), u),
                                     'df_wcol n%s Int32 [1,2,3] 0 0' % u, 'df_wcol n%s Double [] 0 0' % u,
                                     'df_rcol n%s Int32 1 0 0' % u, 'df_colidx %s' % u]))
        elif k < 0.47:
            lines.append('df_wcells %d %s' % (arow(), lst(['n%s=%s' % (S(names[c]), typed_value(types[c], rng)), 'i%d=%s' % (c, typed_value(types[c], rng))])))
        elif k < 0.52:
            lines.append(rng.choice(['df_wcells %d []', 'df_wrow %d []', 'df_rcells %d []']) % arow())
        elif k < 0.57:
            lines.append('df_wrow %d %s' % (arow(), lst([typed_value(t, rng) for t in types] + ['Int32:1'])))
        elif k < 0.62:
            lines.append('df_wcells %d %s' % (arow(), lst(['%s=Nothing:0' % ref(c)])))
        elif k < 0.72:
            t = types[c]
            wrong = 'String' if t != 'String' else rng.choice(['Int32', 'Double', 'Bool'])
            if t == 'Bool' and rng.random() < 0.5: wrong = 'Int32'
            lines.append('df_wcells %d %s' % (arow(), lst(['%s=%s' % (ref(c), typed_value(wrong, rng))])))
            nc = noncol()
            if nc is not None and rng.random() < 0.5:
                w2 = 'String' if types[nc] != 'String' else 'Int32'
                lines.append('df_wcol %s %s %s 0 0' % (ref(nc), w2, lst([raw(w2, rng)])))
                lines.append('df_rcol %s %s 1 0 0' % (ref(nc), w2))
        elif k < 0.80:
            ic = [x for x in range(ncols) if types[x] in INTS]
            if ic:
                x = rng.choice(ic)
                other = rng.choice([t for t in INTS if t != types[x]])
                lines.append('df_wcells %d %s' % (arow(), lst(['%s=%s' % (ref(x), small(other, rng))])))
                lines.append('df_rrow %d' % arow())
        elif k < 0.90:
            nc = noncol()
            if nc is not None:
                t = types[nc]
                vals = [raw(t, rng) for _ in range(rng.randint(1, 4))]
                lines.append(rng.choice(['df_wcol %s %s %s 0 %d' % (ref(nc), t, lst(vals), len(vals) + rng.randint(1, 3)),
                                         'df_wcol %s %s %s %d 0' % (ref(nc), t, lst(vals), max(0, st['rows'] - len(vals)) + rng.randint(1, 3)),
                                         'df_rcol %s %s 2 1 %d' % (ref(nc), t, st['rows'] + rng.randint(1, 3)),
                                         'df_rcol %s %s %d 0 %d' % (ref(nc), t, st['rows'] + 1, 0),
                                         'df_rcolc %s %s 2 %d 0 0' % (ref(nc), t, rng.randint(3, 5)),
                                         'df_wcol %s %s [] %d 0' % (ref(nc), t, rng.randint(0, st['rows'] + 3))]))
        else:
            lines.append('df_rows %d' % st['rows'])
        if st['rows'] and rng.random() < 0.6:
            lines.append('df_rrow %d' % arow())

    n_ops = rng.randint(10, 24 if tier == 'quick' else 45)
    for _ in range(n_ops):
        if rng.random() < 0.18:
            malformed(); continue
        r = rng.random()
        rows = st['rows']
        if rows == 0:
            if r < 0.75: setrows(rng.choice([1, 2, 3, 5, 8]))
            else: lines.append(rng.choice(['df_nrows', 'df_cols', 'df_rrow 0', 'df_reopen rw']))
            continue
        if r < 0.14:
            k = ncols if rng.random() < 0.75 else rng.randint(1, ncols)
            lines.append('df_wrow %d %s' % (arow(), lst([typed_value(t, rng) for t in types[:k]])))
        elif r < 0.28:
            cs = rng.sample(range(ncols), rng.randint(1, ncols))
            lines.append('df_wcells %d %s' % (arow(), lst(['%s=%s' % (ref(c), typed_value(types[c], rng)) for c in cs])))
        elif r < 0.34:
            c = rng.randrange(ncols)
            lines.append('df_wcell %d %d %s' % (arow(), c, typed_value(types[c], rng)))
        elif r < 0.46:
            c = noncol()
            if c is None: continue
            off = rng.randrange(rows)
            n = rng.randint(1, rows - off)
            extra = rng.randint(0, 2)
            vals = [raw(types[c], rng) for _ in range(n + extra)]
            cnt = n if extra or rng.random() < 0.4 else 0
            lines.append('df_wcol %s %s %s %d %d' % (ref(c), types[c], lst(vals), off, cnt))
        elif r < 0.54:
            q = rng.random()
            n = 0 if q < 0.1 else max(0, rows + rng.choice([-3, -2, -1, 1, 2, 3, 5])) if q < 0.9 else rows
            # now and then far beyond one storage chunk (the frame grows without a limit), and back
            if rng.random() < 0.08: n = rng.choice([300, 600, 1100, 5000, 9000])
            elif rows > 200: n = rng.choice([3, 8, rows // 2])
            setrows(n)
            lines.append('df_nrows')
        elif r < 0.64:
            lines.append('df_rrow %d' % arow())
        elif r < 0.72:
            cs = rng.sample(range(ncols), rng.randint(1, ncols))
            lines.append('df_rcells %d %s' % (arow(), lst([S(names[c]) for c in cs])))
        elif r < 0.78:
            lines.append('df_rcell %d %s' % (arow(), ref(rng.randrange(ncols))))
        elif r < 0.87:
            c = noncol()
            if c is None: continue
            if rng.random() < 0.5:
                lines.append('df_rcol %s %s %d 1 %d' % (ref(c), types[c], rng.randint(0, 3), rng.randint(0, rows)))
            else:
                off = rng.randrange(rows); k = rng.randint(0, rows - off)
                lines.append('df_rcol %s %s %d 0 %d' % (ref(c), types[c], k, off))
        elif r < 0.91:
            c = noncol()
            if c is None: continue
            off = rng.randrange(rows); cnt = rng.randint(0, rows - off)
            if rng.random() < 0.5:
                lines.append('df_rcolc %s %s %d %d 1 %d' % (ref(c), types[c], rng.randint(0, 3), cnt, off))
            else:
                lines.append('df_rcolc %s %s %d %d 0 %d' % (ref(c), types[c], cnt + rng.randint(0, 2), cnt, off))
        elif r < 0.94:
            lines.append(rng.choice(['df_nrows', 'df_cols', 'df_colname %d' % rng.randrange(ncols), 'df_colidx %s' % S(rng.choice(names))]))
        else:
            mode = rng.choice(['rw', 'rw', 'ro'])
            lines.append('df_reopen %s' % mode)
            st['ro'] = mode == 'ro'
            lines.append('df_cols'); lines.append('df_nrows')
    if rng.random() < 0.8:
        lines.append('df_reopen %s' % rng.choice(['ro', 'rw']))
    lines.append('df_cols'); lines.append('df_nrows')
    for r in range(st['rows']):
        lines.append('df_rrow %d' % r)
    for c in range(ncols):
        if types[c] != 'Bool':
            lines.append('df_rcol %s %s 0 1 0' % (ref(c), types[c]))
    return lines

def bad_schema(rng):
    k = rng.random()
    good = ['%s:x:Double' % S('a'), '%s:%s:Int32' % (S('b'), S('mV'))]
    if k < 0.2: cols = []
    elif k < 0.45: cols = good + ['%s:x:%s' % (S('n'), rng.choice(['Nothing', 'Float', 'Int8', 'Char', 'Opaque']))]
    elif k < 0.65: cols = good + ['%s:x:String' % S('a')]
    elif k < 0.85: cols = good + ['%s:x:String' % S('')]
    else: cols = ['%s:x:Nothing' % S('only')]
    lines = ['df_new ' + lst(cols), 'df_exists']
    if rng.random() < 0.5: lines.append(rng.choice(['df_rows 2', 'df_nrows', 'df_cols', 'df_rrow 0']))
    return lines

def cases(tier, seed, rng):
    from vlib.runner import Case
    n = 250 if tier == 'quick' else 2000
    out = []
    for _ in range(n):
        out.append(Case(bad_schema(rng), 'gen:frame-schema') if rng.random() < 0.08 else Case(history(rng, tier), 'gen:frame'))
    return out

def nontrivial(case, tags):
    return any(t.startswith(('df_wrow.ok', 'df_wcells.ok', 'df_wcell.ok', 'df_wcol.ok')) for t in tags) and \
           any(t.startswith(('df_rrow.ok', 'df_rcells.ok', 'df_rcell.ok', 'df_rcol.ok', 'df_rcolc.ok')) for t in tags)
def signature(f):
    return '%s:%s:%s' % (f.kind, f.tag().split('.')[0], f.rule())

LEVEL_TEXT = ('Lean 4 theorems about a model of DataFrame / DataFrameHDF5 / Block::createDataFrame that follows the C++ statement order (Janus member resolution through names, all-or-nothing mutators, the resize / offset / count rules of the header templates), for every cell token type, fill function, numeric member conversion and history: by induction over arbitrary call sequences (creation, row-count changes, writeRow, writeCells by name or index, writeColumn with offset and count, reopens, accepted or refused) every cell holds the value of the last accepted write through any of the three paths that covered it since its row was last outside the row count, else the fill value of its column type; readRow, readCells / readCell and every readColumn overload return exactly those cells (the untouched tail of a longer buffer stays); rows that survive a row-count change keep every cell, exposed rows read as fill values, cut rows do not come back; the schema (names, units, types, order, name <-> index) is the one given at creation whatever happens later; a column index past the last column or an unknown name, and a row past the last row, are refused by every access path; a refused call and any call on a read-only file change nothing. The history rule itself (a backwards scan that never builds a table) is evaluated on every read the library answers, in differential histories over schemas of 1-8 columns of the 7 cell types with extremes, NaN payloads, long and UTF-8 strings, read-only sessions and reopen.')
LEVEL_NOTE = ('Trusted: Lean kernel; the idealised compound dataset (H5Dset_extent keeps a prefix of rows and zero-fills, partial-compound I/O transfers exactly the named members, hyperslab selection) validated each run; HDF5 numeric member conversion only for exactly representable integers; persistence across close + reopen is checked by the correspondence run only; Bool columns are not reachable through the column templates (std::vector<bool>); strings without NUL bytes; harness.')
