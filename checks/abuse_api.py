"""abuse_api — programs over the `ab_*` ops (harness/fam_abuse.cpp): corners of the public API that no other family reaches (size-vector
arithmetic, the NDArray buffer class, position checks with size vectors of any rank, per-column getters of a data-frame dimension).
Replayed on the model (NixModel/SizeVec.lean predicts every answer except the data-frame getters), sanitizer build: used by checks/C16.py."""
from vlib.tok import lst, f64, s as S

DTYPES = ['Bool', 'Int8', 'Int16', 'Int32', 'Int64', 'UInt8', 'UInt16', 'UInt32', 'UInt64', 'Float', 'Double']

def nds(rng, maxlen=4, pool=(0, 1, 2, 3, 5, 7, 4294967296, 18446744073709551615)):
    return lst([str(rng.choice(pool)) for _ in range(rng.randint(0, maxlen))])

def program(rng, tier):
    lines = []
    for _ in range(rng.randint(20, 40)):
        q = rng.random()
        if q < 0.08:
            def var():
                t = rng.choice(['Bool', 'Int32', 'UInt32', 'Int64', 'UInt64', 'Double', 'String', 'String', 'Nothing'])
                if t == 'Bool': return 'Bool:%d' % rng.randint(0, 1)
                if t == 'Double': return 'Double:' + f64(rng.choice([0.0, -0.0, 1.5, 1e308, float('inf')]))
                if t == 'String': return 'String:' + S(rng.choice(['', 'a', 'x' * 40, 'äöü€', 'two words']))
                if t == 'Nothing': return 'Nothing:'
                if t.startswith('U'): return '%s:%d' % (t, rng.choice([0, 1, 2 ** 31, 2 ** 32 - 1] + ([2 ** 63, 2 ** 64 - 1] if t == 'UInt64' else [])))
                return '%s:%d' % (t, rng.choice([0, -1, 7, 2 ** 31 - 1, -2 ** 31] + ([2 ** 63 - 1, -2 ** 63] if t == 'Int64' else [])))
            lines.append('ab_var %s %s' % (var(), var()))
        elif q < 0.3:
            op = rng.choice(['+', '-', '*', '/', '+=', 'dot', 'lt', 'le', 'gt', 'ge', 'eq', 'idx', 'nelms', 'asg'])
            a = nds(rng)
            b = a if rng.random() < 0.2 else nds(rng)
            if rng.random() < 0.4:           # same rank, other values
                n = 0 if a == '[]' else a.count(',') + 1
                b = lst([str(rng.choice([0, 1, 2, 3, 9])) for _ in range(n)])
            lines.append('ab_nd %s %s %s' % (op, a, b))
        elif q < 0.55:
            rank = rng.randint(0, 3)
            shape = [rng.choice([0, 1, 2, 3, 4]) for _ in range(rank)]
            n = 1
            for x in shape: n *= x
            k = rng.choice(['get', 'set', 'geti', 'seti'])
            if k in ('get', 'set'):
                ilen = rng.choice([rank, rank, rank, max(0, rank - 1), rank + 1, 0])
                idx = lst([str(rng.choice([0, 0, 1, 2, 3, 4, 5, 1000])) for _ in range(ilen)])
            else:
                idx = str(rng.choice([0, 0, 1, max(0, n - 1), n, n + 1, n + 7, 1000, 10 ** 6]))
            lines.append('ab_ndarr %s %s %s %s' % (rng.choice(DTYPES), lst([str(x) for x in shape]), k, idx))
            if rank >= 1 and rng.random() < 0.7:
                # the same storage addressed with another element type: the last partial slot, the first index past it
                SZ = {'Bool': 1, 'Int8': 1, 'UInt8': 1, 'Int16': 2, 'UInt16': 2, 'Int32': 4, 'UInt32': 4, 'Float': 4, 'Int64': 8, 'UInt64': 8, 'Double': 8}
                dt, at = rng.choice(DTYPES), rng.choice(DTYPES)
                shape2 = [rng.choice([1, 2, 3, 5, 7, 10])] + shape[1:]
                n2 = 1
                for x in shape2: n2 *= x
                q = n2 * SZ[dt] // SZ[at]
                for i in sorted({max(0, q - 1), q, q + 1, rng.choice([0, 1, 2])}):
                    lines.append('ab_ndarrw %s %s %s %s %d' % (dt, lst([str(x) for x in shape2]), at, rng.choice(['geti', 'seti']), i))
        elif q < 0.8:
            rank = rng.randint(1, 3)
            shape = [rng.choice([1, 2, 3, 5]) for _ in range(rank)]
            def vec():
                return lst([str(rng.choice([0, 0, 1, 2, 3, 5, 6, 10 ** 6])) for _ in range(rng.choice([rank, rank, rank, 0, max(0, rank - 1), rank + 1, rank + 2]))])
            lines.append('ab_posin %s %s %s' % (lst([str(x) for x in shape]), vec(), rng.choice(['~', vec(), vec()])))
        else:
            nc = rng.randint(1, 4)
            col = rng.choice(['~', '0', str(nc - 1), str(nc), str(nc + 1), str(nc + 7), '4294967295'])
            dflt = rng.choice(['~', '~', '0', str(nc - 1)])
            lines.append('ab_fdim %d %d %s %s' % (nc, rng.choice([0, 1, 3]), col, dflt))
    # the chunk shape guessed for a data set: every rank, extents 0 (read as 1024), 1, odd, powers of two, huge (element counts
    # beyond 2^53 and beyond 2^64), element sizes 1..16
    for _ in range(6):
        rank = rng.choice([1, 1, 2, 2, 3, 4, 6])
        pool = [0, 1, 2, 3, 7, 100, 1000, 1024, 4097, 65536, 10 ** 6, 2 ** 20 + 1, 2 ** 31, 2 ** 32, 2 ** 40, 2 ** 53 + 1, 2 ** 63, 2 ** 64 - 1]
        dims = [rng.choice(pool if rng.random() < 0.5 else pool[:12]) for _ in range(rank)]
        lines.append('ab_chunk %s %d' % (lst([str(x) for x in dims]), rng.choice([1, 1, 2, 4, 8, 8, 16])))
    lines.append('ab_chunk [] 8')
    lines.append('ab_compare %s' % rng.choice('BSOADTMG'))
    for kind in ('T', 'M'):
        lines.append('ab_tagname %s %s' % (kind, rng.choice(['ref', 'other', 'gone', 'none', 'empty'])))
    for kind in ('T', 'M'):
        for _ in range(2):
            lines.append('ab_tagidx %s %s %s' % (kind, rng.choice(['0', '1', '1', '2', '4294967296', '18446744073709551615']), rng.choice(['0', '1', '1', '2', '18446744073709551615'])))
    return lines

def cases(tier, seed, rng):
    from vlib.runner import Case
    n = 12 if tier == 'quick' else 150
    out = []
    for _ in range(n):
        out.append(Case(program(rng, tier), 'gen:abuse-api'))
    return out
