"""shared generator pieces for the retrieval families (C05 tag, C06 mtag, C17 slice)"""
import math
from vlib.tok import f64, s as S, lst

SIS = [1.0, 0.1, 0.001, 1.0 / 3.0, 0.25, 2.0 ** -10, 7.3]
OFFS = [None, None, 0.0, 0.5, -2.5, 0.3, 3.0, -0.2, -0.1, -0.7]     # negative, non-dyadic: first + (last - first) != last
TIME_UNITS = ['s', 'ms', 'us']
VOLT_UNITS = ['V', 'mV', 'kV']

class Dim:
    """a generated dimension descriptor with the coordinates it defines"""
    def __init__(self, kind, n, rng, with_unit):
        self.kind = kind
        self.n = n
        self.unit = None
        if kind == 'S':
            self.si = rng.choice(SIS)
            self.off = rng.choice(OFFS)
            if with_unit:
                self.unit = rng.choice(TIME_UNITS + VOLT_UNITS)
            o = 0.0 if self.off is None else self.off
            self.coords = [i * self.si + o for i in range(n + 6)]
            self.bounded = None
        elif kind == 'R':
            # ticks: usually as many as data points, sometimes more, rarely fewer
            r = rng.random()
            ln = n if r < 0.7 else n + rng.randint(1, 3) if r < 0.92 else max(1, n - 1)
            t = rng.choice([0.0, -3.0, 1.5, 100.0, -0.3, -0.7])
            ticks = []
            for _ in range(ln):
                ticks.append(t)
                t = t + rng.choice([0.1, 0.25, 1.0, 2.5]) * (0.5 + rng.random()) if rng.random() < 0.8 else math.nextafter(t, math.inf)
            self.ticks = ticks
            if with_unit:
                self.unit = rng.choice(TIME_UNITS + VOLT_UNITS)
            self.coords = ticks
            self.bounded = ln
        elif kind == 'T':
            self.labels = rng.choice([0, n, n, n + 2])
            self.coords = [float(i) for i in range(n + 6)]
            self.bounded = self.labels or None
        else:  # F
            self.rows = rng.choice([n, n, n + 1])
            self.colunit = rng.choice(['', '', 'mV'])
            self.coords = [float(i) for i in range(n + 6)]
            self.bounded = self.rows
    def tok(self):
        if self.kind == 'S':
            return 'S:%s:%s:%s' % (f64(self.si), '~' if self.off is None else f64(self.off), S(self.unit))
        if self.kind == 'R':
            return 'R:%s:%s' % (';'.join(f64(t) for t in self.ticks), S(self.unit))
        if self.kind == 'T':
            return 'T:%d' % self.labels
        return 'F:%d:%s' % (self.rows, S(self.colunit))
    def own_unit(self):
        if self.kind in ('S', 'R'):
            return self.unit or 'none'
        if self.kind == 'F':
            return self.colunit or 'none'
        return 'none'

def make_array(rng, rank=None, kinds=None, unit_prob=0.4):
    rank = rank or rng.choice([1, 1, 2, 2, 3])
    shape = [rng.choice([1, 2, 3, 5, 8, 12]) for _ in range(rank)]
    dims = []
    for d in range(rank):
        k = kinds[d] if kinds else rng.choice(['S', 'S', 'R', 'T', 'F'])
        dims.append(Dim(k, shape[d], rng, rng.random() < unit_prob))
    return shape, dims

def pick_position(dim, rng):
    """a position on / beside / between / outside the axis coordinates, and the sample index it relates to"""
    c = dim.coords
    n = dim.n
    i = rng.randrange(0, max(1, min(len(c), n + 1)))
    i = min(i, len(c) - 1)
    x = c[i]
    r = rng.random()
    if r < 0.45: return x
    if r < 0.55: return math.nextafter(x, -math.inf)
    if r < 0.65: return math.nextafter(x, math.inf)
    if r < 0.85 and i + 1 < len(c): return (x + c[i + 1]) / 2
    if r < 0.93: return c[0] - rng.choice([0.5, 1.0, 3.3])
    return c[min(len(c) - 1, n)] + rng.choice([0.5, 2.0])

def pick_extent(dim, p, rng):
    c = dim.coords
    r = rng.random()
    if r < 0.15: return 0.0
    if r < 0.22: return -rng.choice([0.5, 1.0])
    # up to a later coordinate: exactly on it, just before, between
    later = [x for x in c if x >= p]
    if not later: return rng.choice([0.5, 1.0])
    y = later[min(len(later) - 1, rng.randrange(0, 4))]
    r = rng.random()
    e = y - p
    if r < 0.5: return e
    if r < 0.7: return e + (c[1] - c[0]) * 0.5 if len(c) > 1 else e + 0.5
    if r < 0.85: return math.nextafter(e, -math.inf) if e > 0 else e
    return e * 3 + 1.0

PREFIX_EXP = {'k': 3, '': 0, 'm': -3, 'u': -6}
def rescale(value, from_unit, to_unit):
    """numerically rescale value given in from_unit into to_unit, only when exact in binary floating point; else None"""
    def split(u):
        for base in ('s', 'V'):
            if u.endswith(base) and u[:-1] in PREFIX_EXP:
                return u[:-1], base
        return None
    a, b = split(from_unit), split(to_unit)
    if not a or not b or a[1] != b[1]:
        return None
    k = PREFIX_EXP[a[0]] - PREFIX_EXP[b[0]]
    v = value * (10.0 ** k) if k >= 0 else value / (10.0 ** -k)
    # exactness check through exact rationals
    from fractions import Fraction
    exact = Fraction(value) * (Fraction(10) ** k)
    return v if Fraction(v) == exact else None
