"""C07 — position→index conversion obeys the documented matching rules."""
import math
from vlib.tok import f64, lst
ID = 'C07'
THEOREMS = ['Nix.C07.' + t for t in [
    'count_index_beyond', 'getCountIndex_of_lt', 'range_index_spec', 'range_deref_safe', 'sampled_index_spec', 'count_index_spec', 'index_unique', 'index_roundtrip',
    'sampled_roundtrip', 'range_pair_spec', 'count_pair_spec', 'sampled_pair_spec', 'rel_evaluator_sound']]
RULE = ('structured grid: families of axes (sampled: decimal and binary intervals x offsets; range: random strictly ascending ticks incl. '
        'ulp-adjacent ticks; set / data-frame: label and row counts incl. none) x sample indices x positions {x_i, pred(x_i), succ(x_i), '
        'midpoint, outside} x 5 PositionMatch rules; start/end pairs x 2 RangeMatch modes; vector overloads. One case = one axis with all '
        'its probes; non-trivial = at least one probe took a model path returning an index; distinct = distinct op text.')
TRUSTED = ['lean/NixModel/Index.lean: hand-written model of getIndex/getSampledIndex/getSetIndex/getDataFrameIndex and the pair functions, tied by bit-exact correspondence on the grid',
           'IEEE-754 facts used as theorem hypotheses: < and <= form a linear order on finite doubles, == is equality, 0*si+off == off, (double)n strictly monotone below 2^53, floor/ceil exact']
ASSUMPTIONS = ['positions are finite and |p| < 4e15 (beyond, static_cast<ndsize_t> of a double is outside the property)',
               'ticks strictly ascending; sampling interval > 0']

MATCHES = ['EQ', 'L', 'G', 'GE', 'LE']

def nxt(x): return math.nextafter(x, math.inf)
def prv(x): return math.nextafter(x, -math.inf)

def probes_for(coords, bounded, rng, n_idx, dense):
    """positions on / beside / between / outside the given coordinates"""
    n = len(coords)
    idxs = sorted(set([0, 1, 2, n - 1, n - 2] + [rng.randrange(n) for _ in range(n_idx)])) if n else []
    idxs = [i for i in idxs if 0 <= i < n]
    ps = []
    for i in idxs:
        x = coords[i]
        ps += [x, prv(x), nxt(x)]
        if i + 1 < n:
            ps.append((x + coords[i + 1]) / 2)
    if n:
        span = (coords[-1] - coords[0]) or 1.0
        ps += [coords[0] - span * 0.37, coords[0] - 1e-9, prv(coords[0]), coords[-1] + span * 0.21, coords[-1] + 1e-9]
    else:
        ps += [0.0, 1.0, -1.0]
    # whole-number / grid positions outside the axis (the kernels special-case "below the first coordinate")
    if n >= 2:
        step = coords[1] - coords[0]
        ps += [coords[0] - k * step for k in (1, 2, 3)] + [coords[-1] + k * step for k in (1, 2)]
    ps += [-1.0, -2.0, -3.0, -0.5, -0.0, 0.0, float(n), float(n + 1), 1e9]
    # far beyond every axis ("to the end"): at and past the limit of exactly representable whole numbers
    ps += [2.0 ** 53 - 1, 2.0 ** 53, 2.0 ** 53 + 2, 1e16, 4e18, 2.0 ** 62]
    if dense:
        ps += [rng.uniform(coords[0], coords[-1]) if n else rng.uniform(-2, 2) for _ in range(dense)]
    return ps

def axis_case(kind, decl, coords, bounded, rng, tier):
    from vlib.runner import Case
    quick = tier == 'quick'
    lines = [decl]
    ps = probes_for(coords, bounded, rng, 6 if quick else 40, 4 if quick else 30)
    for p in ps:
        for m in MATCHES:
            lines.append('idx %s %s' % (f64(p), m))
    # pairs
    pp = ps if len(ps) < 14 else rng.sample(ps, 14 if quick else 40)
    pairs = [(s, e) for s in pp for e in pp]
    rng.shuffle(pairs)
    pairs = pairs[: (40 if quick else 400)]
    for s, e in pairs:
        for rm in ('incl', 'excl'):
            lines.append('pair %s %s %s' % (f64(s), f64(e), rm))
    # vector overloads: the same pairs, several to a call
    for rm in ('incl', 'excl'):
        for k in range(0, len(pairs), 8):
            sel = pairs[k:k + 8]
            lines.append('pairv %s %s %s' % (lst([f64(s) for s, _ in sel]), lst([f64(e) for _, e in sel]), rm))
    lines.append('pairv %s %s incl' % (lst([f64(0.0)]), lst([])))
    # coordinate function itself
    for i in ([0, 1, 2, 3, 7, 10, 99, 1000, 9999] if kind == 'sampled' else list(range(min(len(coords), 5)))):
        lines.append('posat %d' % i)
    # … and the axis getter, also from a start index other than 0
    if kind in ('sampled', 'range'):
        n = len(coords) if kind == 'range' else 400
        for count, start in ((5, 0), (7, 1), (12, 3), (400, 1), (3, 100), (0, 2)):
            if kind == 'range' and start + count > n:
                count, start = max(0, min(count, n - 1)), min(start, 1)
            lines.append('axisv %d %d' % (count, start))
            lines.append('axisrt %d %d' % (count, start))
    return Case(lines, 'gen:' + kind)

def cases(tier, seed, rng):
    quick = tier == 'quick'
    out = []
    sis = [1.0, 0.1, 0.001, 1.0 / 3.0, 0.25, 2.0 ** -10, 7.3] + ([] if quick else [1e-5, 123.456, 0.7, 3e-3, 2.5e-4, 1e6, 0.30000000000000004])
    offs = [None, 0.0, 0.5, -2.5, 0.3] + ([] if quick else [1e3, -0.1, 17.25, -1e-3, 1.0 / 7.0])
    n = 10000
    for si in sis:
        for off in (offs if not quick else offs[:4] if si in (0.1, 1.0 / 3.0) else [offs[rng.randrange(len(offs))], None]):
            o = 0.0 if off is None else off
            # first 10^4 coordinates exactly as positionAt computes them
            coords = [i * si + o for i in range(n)]
            decl = 'axis_sampled %s %s ~' % (f64(si), '~' if off is None else f64(off))
            out.append(axis_case('sampled', decl, coords, False, rng, tier))
            # the property's explicit claim: every sample coordinate converts back (all of the first 10^4)
            from vlib.runner import Case
            lines = [decl]
            step = 7 if quick else 1
            for i in list(range(0, 300)) + list(range(300, n, step * 13)):
                x = coords[i]
                for m in ('GE', 'LE', 'EQ', 'L', 'G'):
                    lines.append('idx %s %s' % (f64(x), m))
            out.append(Case(lines, 'gen:sampled-roundtrip'))
    # sampled axes at the edge of the number format: intervals +inf, huge and denormal, offsets whose difference to the position
    # overflows — the index estimate is then inf or NaN (inf / inf) and must become "no index" (or the index the rule names)
    from vlib.runner import Case
    big = 1.7976931348623157e308
    for si in [math.inf, 1e308, big, 5e-324, 1e-300, 2.0 ** 52, 3.0]:
        for off in ([None, -1e308, 1e308, -big] if not quick else [None, -1e308, rng.choice([1e308, -big])]):
            decl = 'axis_sampled %s %s ~' % (f64(si), '~' if off is None else f64(off))
            lines = [decl]
            for p in [0.0, 1.0, -1.0, 1e308, -1e308, big, -big, math.inf, -math.inf, math.nan, 5e-324, 2.0 ** 53, 1e300]:
                for m in MATCHES:
                    lines.append('idx %s %s' % (f64(p), m))
            for s_, e_ in [(-1e308, 1e308), (0.0, math.inf), (-math.inf, math.inf), (math.nan, 1.0), (1e308, big), (0.0, 0.0), (-big, big)]:
                for rm in ('incl', 'excl'):
                    lines.append('pair %s %s %s' % (f64(s_), f64(e_), rm))
            for i in (0, 1, 2, 1000):
                lines.append('posat %d' % i)
            out.append(Case(lines, 'gen:sampled-extreme'))
    # range axes
    nr = 12 if quick else 120
    for k in range(nr):
        ln = rng.choice([1, 2, 3, 5, 8, 13, 40]) if k > 6 else k + 1
        t = rng.uniform(-50, 50)
        ticks = []
        for _ in range(ln):
            ticks.append(t)
            r = rng.random()
            t = nxt(t) if r < 0.15 else t + rng.choice([1e-9, 0.1, 0.25, 1.0, 3.7, 100.0]) * rng.random() if r < 0.9 else t + 1.0
            if t <= ticks[-1]:
                t = nxt(ticks[-1])
        decl = 'axis_range %s ~' % lst([f64(x) for x in ticks])
        out.append(axis_case('range', decl, ticks, True, rng, tier))
        # the same axis as an alias of its array, and with the ticks REPLACED by another route than the handle that is asked
        if k % 3 == 0 and len(ticks) >= 1:
            other = sorted(set([t * 10.0 + 3.0 for t in ticks] + [ticks[0] * 10.0 - 5.0]))
            for first in ('axis_alias %s' % lst([f64(x) for x in ticks]), decl):
                c1 = axis_case('range', first, ticks, True, rng, 'quick')
                c2 = axis_case('range', 'axis_reticks %s' % lst([f64(x) for x in other]), other, True, rng, 'quick')
                from vlib.runner import Case
                out.append(Case(c1.lines[:120] + c2.lines[:200], 'gen:range-reticked'))
    # a range axis WITHOUT ticks: the alias dimension of an array of extent 0 (no position has an index; every entry point says so)
    for decl in ('axis_alias []',):
        lines = [decl]
        for p in (0.0, 1.0, -1.0, 1e9, math.nan, math.inf):
            for m in MATCHES: lines.append('idx %s %s' % (f64(p), m))
        for s_, e_ in ((0.0, 1.0), (1.0, 0.0), (0.0, 0.0), (-math.inf, math.inf)):
            for rm in ('incl', 'excl'): lines.append('pair %s %s %s' % (f64(s_), f64(e_), rm))
        lines.append('pairv %s %s incl' % (lst([f64(0.0), f64(1.0)]), lst([f64(1.0), f64(2.0)])))
        lines += ['posat 0', 'axisv 0 0', 'axisv 1 0']
        out.append(Case(lines, 'gen:range-empty'))
    # set / data-frame axes asked for positions no index type can hold (2^64 and beyond, +inf) or that are no numbers
    for kind in ('set', 'df'):
        for cnt in (0, 1, 5):
            lines = ['axis_%s %d' % (kind, cnt)]
            for p in (2.0 ** 64, 2.0 ** 64 - 2048.0, 2.0 ** 63, 1e308, math.inf, -math.inf, math.nan, -1e308, 2.0 ** 70):
                for m in MATCHES: lines.append('idx %s %s' % (f64(p), m))
            for s_, e_ in ((0.0, math.inf), (0.0, 2.0 ** 64), (2.0 ** 64, 2.0 ** 65), (-math.inf, 3.0), (math.nan, math.nan), (1.0, 1e308)):
                for rm in ('incl', 'excl'): lines.append('pair %s %s %s' % (f64(s_), f64(e_), rm))
            out.append(Case(lines, 'gen:count-extreme'))
    # set / data-frame axes
    for kind in ('set', 'df'):
        for cnt in ([0, 1, 2, 5, 17] if quick else [0, 1, 2, 3, 5, 17, 64, 1000]):
            coords = [float(i) for i in range(cnt if cnt else 30)]
            out.append(axis_case(kind, 'axis_%s %d' % (kind, cnt), coords, cnt > 0, rng, tier))
    return out

def nontrivial(case, tags):
    return any(t.endswith('.some') for t in tags)

def signature(f):
    # axis kind + rule: a defect in one kernel is one finding
    return '%s:%s:%s' % (f.kind, '.'.join(f.tag().split('.')[:2]), f.rule())

LEVEL_TEXT = ('Lean 4 theorems for every axis, position and rule: the range kernel (every strictly ascending tick list, by induction), '
              'the sampled kernel (every interval/offset with strictly increasing coordinates, independent of the rounding of the quotient), '
              'the set/data-frame kernel (every label/row count), uniqueness of the designated index, coordinate round trip, start/end pairs. '
              'The kernels are tied to src/Dimensions.cpp by bit-exact correspondence on structured grids through real dimension objects; '
              'the rule itself (a neighbour-local evaluator proved sound for the quantified rule) is evaluated on every answer of the library.')
LEVEL_NOTE = ('Trusted: Lean kernel; IEEE-754 order facts stated as hypotheses (linear order, == is equality, exact floor/ceil below 2^53, '
              '0*si+off == off); hand-written model lean/NixModel/Index.lean validated bit-exactly each run; harness; positions restricted to '
              'finite |p| < 4e15.')

def minimal(f):
    decl = [l for l in f.case.lines[:f.line_no] if l.startswith('axis_')][-1:]
    return decl + [f.case.lines[f.line_no]]
