"""C03 — names unique per parent; name / id / index lookups, counts and order agree."""
from vlib.tok import s as S
from checks.storegen import World, NAMES, PLAIN, BLOCK_KINDS, REL_OF, with_hdump
from checks import C04
ID = 'C03'
THEOREMS = ['Nix.St.find_by_name', 'Nix.St.find_by_id', 'Nix.St.find_by_id_shadowed', 'Nix.St.count_eq_enumeration_length', 'Nix.St.enumeration_eq_by_index', 'Nix.St.nthChild_isSome_iff', 'Nix.St.blkFind_by_name', 'Nix.St.blkFind_by_name_and_id', 'Nix.St.blkFind_by_id', 'Nix.St.createBlock_appends', 'Nix.St.delete_keeps_order', 'Nix.St.unlinkAll_preserves_container', 'Nix.St.createBlock_preserves_container', 'Nix.St.blocks_container_invariant', 'Nix.St.newFile_blocks_container', 'Nix.St.newFile_wt', 'Nix.St.apply_wt', 'Nix.St.run_wt', 'Nix.St.reachable_wt', 'Nix.St.names_unique_per_parent', 'Nix.St.lookup_by_name_finds_the_link', 'Nix.St.children_are_groups', 'Nix.St.properties_are_datasets', 'Nix.St.link_targets_exist', 'Nix.St.links_conform_to_schema', 'Nix.St.WT.block_containers_hold_groups',
            'Nix.St.apply_idStep', 'Nix.St.apply_idUniq', 'Nix.St.run_idUniq', 'Nix.St.ids_pairwise_distinct', 'Nix.St.findGroupByAttribute_of_idUniq',
            'Nix.St.lookup_by_id_finds_the_entity', 'Nix.St.lookup_by_name_finds_the_entity', 'Nix.St.lookups_by_name_and_id_agree', 'Nix.St.children_ids_distinct', 'Nix.St.grpFind_by_handle_needs_the_id_link']
LEAN_MODULES = ['NixModel.Props.C03', 'NixModel.Props.C03Inv', 'NixModel.Props.C03Schema', 'NixModel.Proofs.Roles', 'NixModel.Proofs.RolesLookup', 'NixModel.Proofs.RolesOps', 'NixModel.Proofs.RolesHistory', 'NixModel.Proofs.IdUniq', 'NixModel.Props.C03Ids']
RULE = ('random create / delete / re-create histories over every container kind (blocks, nested sections, nested sources, data arrays, data frames, '
        'tags, multi-tags, groups, properties, features, tag references, group members, entity sources) with an adversarial name pool (UUID-shaped, '
        '"..", case / whitespace twins, UTF-8, names of internal containers); after every few mutations every container of every parent is '
        'cross-checked through every access path (index, name, id, has by name / id / handle, count, enumeration) and against the creation order; '
        'close + reopen in between. non-trivial = a container with >= 2 children was cross-checked; distinct = distinct op text.')
TRUSTED = ['harness op xcheck / xlinks (calls every public lookup of the container)', 'HDF5 creation-order index']
LEVEL_TEXT = ("Lean 4 theorems about the store model, for every container that creation can produce (link names distinct and non-empty, children groups with distinct ids), every size and every index: the i-th child is returned by the lookup by its name and by the lookup by its id (file / section / source containers and the containers of a block, incl. the name+id form used by the handle queries), count = length of the enumeration = number of valid indices, enumeration = children by index; a successful create appends at the end under a name no sibling had; every delete leaves the survivors' links as a sublist in the old order. The id lookups carry the proviso that no sibling is NAMED like the id — shown to be exactly what the duplicate check of create protects. Link containers keyed by id (tag references, group members, entity sources) looked up by a UUID-shaped NAME are the known finding K1: the model reproduces the library bug-for-bug there and the relation evaluated on the implementation reports it. The first clause — names unique per parent — is proved of every reachable state without a hypothesis on the state: the schema of a nix file (every object has a role; every link leads from a holder of role r under name n to a target of role childRole r n; targets exist; only properties containers hold data sets; non-empty link names are pairwise distinct in every object) holds of a new file and is kept by every one of the 30 entry points of the store model whenever its object arguments have the role their C++ front-end type guarantees (apply_wt, run_wt; roles are ghost state carried by the theorems) — so nix never asks HDF5 for a link name that is taken, a non-empty name looked up yields exactly the child linked under it, and no openGroup of the entity layer ever meets a data set. The lookup by ID is likewise proved of every reachable state: the id invariant IdUniq (two objects of the file that carry the same entity_id are one object — deleted, unlinked objects included, so an id is never reused) is kept by every one of the 30 entry points given an id that is new to the file (apply_idUniq: each entry point is unfolded into the store primitives it is made of and shown to write an entity_id onto at most one object), hence by every history (run_idUniq), and under it the first child carrying the id IS its owner (lookup_by_id_finds_the_entity, lookups_by_name_and_id_agree, for every container of every reachable file); that the library's generator hands out ids that are new to the file is checked on every mk of every history of the tie (rule new_id_was_never_used_in_this_file, against the model store, which never forgets an object). Every access path of every child of every container is cross-checked on the library after random create / delete / re-create histories with an adversarial name pool, and the model must predict every answer.")
LEVEL_NOTE = ("Trusted: Lean kernel; the abstract HDF5 store of lean/NixModel/Store.lean (objects, attributes, ordered hard links, removeAllLinks = every link to the object goes, creation-order index) and the hand-written entity layer lean/NixModel/Entities.lean, both validated on every run: the model replays every op of every generated history and must predict the library's answer (result / exception class, looked-up ids, counts, enumerations, cross-checks) and, at every dump, the whole observable tree (observe); ids and creation times are taken from the trace; fields the store model does not carry (array data, dimension descriptors, calibration, property values, row counts) are compared between dumps of the library only; harness dump = every public getter of every entity.")
ASSUMPTIONS = ['entity sources offer has-by-id only (documented signature)']

def history(rng, tier, uuid_names):
    w = World(rng, names=NAMES if uuid_names else PLAIN)
    w.open('ow')
    n = rng.randint(15, 40 if tier == 'quick' else 90)
    for i in range(n):
        w.random_step()
        if rng.random() < 0.12:
            # a create that is refused (empty type, bad name, duplicate): the container shows what it showed
            par = w.pick(['B', 'S', 'O']) if rng.random() < 0.8 else None
            kind = rng.choice(BLOCK_KINDS) if par is not None and par.kind == 'B' else ('S' if par is None or par.kind == 'S' else 'O')
            extra = {'A': ' Double [2]', 'D': ' [x63:x:Double]', 'T': ' [d0000000000000000]', 'M': None, 'G': '', 'O': '', 'S': ''}[kind]
            if extra is not None:
                ps = par.slot if par is not None else '$F'
                ex = w.alive(kind, parent=ps)
                how = rng.choice(['type', 'type', 'name', 'dup'])
                nm = S(ex[0].name) if how == 'dup' and ex else S('') if how == 'name' else S('refused-%d' % i)
                w.emit('mk $x %s %s %s %s%s' % (kind, ps, nm, S('t') if how != 'type' else S(''), extra))
                w.emit('xcheck %s %s' % (kind, ps))
        if rng.random() < 0.18:
            w.xcheck_all()
        if rng.random() < 0.04:
            w.reopen('rw')
            w.xcheck_all()
    w.xcheck_all()
    w.reopen(rng.choice(['ro', 'rw']))
    w.xcheck_all()
    return w.lines

def source_name_case(rng):
    """sources whose names are legal but look like patterns (regular-expression metacharacters), attached to one holder together with the
    names such a pattern would also match: the lookup by name on the holder must return exactly the source of that name"""
    w = World(rng, names=PLAIN)
    w.open('ow')
    b = w.mk('B', None, name='b')
    names = ['..', 'ab', 'a.c', 'abc', 'x*', 'xx', 'x', 'run[1]', 'run1', 'trial (1', 'a|b', 'a', '^a', 'a$', 'a+', 'aa', '\\d', '7', '.*']
    rng.shuffle(names)
    srcs = [w.mk('O', b, name=n) for n in names[:rng.randint(8, len(names))]]
    holders = [w.mk('A', b, name='arr'), w.mk('T', b, name='tag'), w.mk('G', b, name='grp')]
    for h in holders:
        for s_ in srcs:
            if rng.random() < 0.75:
                w.emit('link src %s handle %s' % (h.slot, s_.slot))
        w.emit('xlinks src %s' % h.slot)
    w.emit('xcheck O %s' % b.slot)
    w.reopen('rw')
    for h in holders:
        w.emit('xlinks src %s' % h.slot)
    return w.lines

def feature_case(rng):
    """tags and multi-tags with several features (some on the same array); arrays are deleted one by one: the features that lost
    their array stay listed, the others are still found by id and through their array's name and id, in creation order"""
    w = World(rng, names=PLAIN)
    w.open('ow')
    b = w.mk('B', None, name='b')
    arrs = [w.mk('A', b, name=n, extra=[3]) for n in ['arr0', 'arr1', 'arr2', 'x.y', 'ümlaut €']]
    holders = [w.mk('T', b, name='t'), w.mk('M', b, name='m', extra=arrs[0])]
    for h in holders:
        for a in [rng.choice(arrs) for _ in range(rng.randint(2, 5))]:
            w.mk('R', h, name='x', extra=a)
    if rng.random() < 0.4: w.reopen('rw')
    victims = arrs[1:]; rng.shuffle(victims)
    for v in [None] + victims[:rng.randint(1, 3)]:
        if v is not None: w.delete(v, rng.choice(['name', 'handle']))
        for h in holders:
            w.emit('xcheck R %s' % h.slot); w.emit('xfeat %s' % h.slot)
    w.reopen(rng.choice(['ro', 'rw']))
    for h in holders:
        w.emit('xcheck R %s' % h.slot); w.emit('xfeat %s' % h.slot)
    return w.lines

def prefix_names_case(rng):
    """names of which one is a proper prefix of another ('spikes' / 'spikes sorted', 'raw' / 'raw ' with a trailing blank), the LONGER
    one added first, in every container that is searched by name through an attribute scan or a link name: the members of a group,
    the references of a tag, the sources of an entity, the children of a block"""
    w = World(rng, names=PLAIN)
    w.open('ow')
    b = w.mk('B', None, name='b')
    pairs = [('spikes sorted', 'spikes'), ('raw ', 'raw'), ('abc', 'ab'), ('x.y.z', 'x.y')]
    rng.shuffle(pairs)
    names = [n for p in pairs[:3] for n in p]          # longer before shorter
    ents = {k: [w.mk(k, b, name=n, extra=([3] if k == 'A' else None)) for n in names] for k in ('A', 'D', 'T', 'O')}
    g = w.mk('G', b, name='grp'); t = w.mk('T', b, name='tag'); h = w.mk('A', b, name='holder', extra=[3])
    for e in ents['A']:
        w.emit('link mA %s handle %s' % (g.slot, e.slot)); w.emit('link ref %s handle %s' % (t.slot, e.slot))
    for e in ents['D']: w.emit('link mD %s handle %s' % (g.slot, e.slot))
    for e in ents['T']: w.emit('link mT %s handle %s' % (g.slot, e.slot))
    for e in ents['O']: w.emit('link src %s handle %s' % (h.slot, e.slot))
    def look():
        for rel in ('mA', 'mD', 'mT'): w.emit('xlinks %s %s' % (rel, g.slot))
        w.emit('xlinks ref %s' % t.slot); w.emit('xlinks src %s' % h.slot)
        for k in ('A', 'D', 'T', 'O'): w.emit('xcheck %s %s' % (k, b.slot))
    look()
    # remove the shorter name through the group BY NAME: the longer one must stay
    w.emit('unlink mA %s name %s' % (g.slot, S(names[1]))); w.emit('xlinks mA %s' % g.slot)
    w.reopen(rng.choice(['ro', 'rw']))
    look()
    return w.lines

def twin_blocks_case(rng):
    """two blocks with the same names inside: an entity of the OTHER block named like a linked one is not linked — asked by handle"""
    w = World(rng, names=PLAIN)
    w.open('ow')
    bs = [w.mk('B', None, name='rec1'), w.mk('B', None, name='rec2')]
    kit = []
    for b in bs:
        e = {'A': [w.mk('A', b, name=n, extra=[3]) for n in ('x', 'y')], 'D': [w.mk('D', b, name='frame')], 'T': [w.mk('T', b, name='t')],
             'O': [w.mk('O', b, name='src')], 'G': [w.mk('G', b, name='g')]}
        e['M'] = [w.mk('M', b, name='m', extra=e['A'][0])]
        kit.append(e)
    a, o = kit
    w.emit('link ref %s handle %s' % (a['T'][0].slot, a['A'][0].slot)); w.emit('link ref %s handle %s' % (a['M'][0].slot, a['A'][1].slot))
    for rel, k in (('mA', 'A'), ('mD', 'D'), ('mT', 'T'), ('mM', 'M')):
        w.emit('link %s %s handle %s' % (rel, a['G'][0].slot, a[k][0].slot))
    for holder in (a['A'][0], a['T'][0], a['G'][0]):
        w.emit('link src %s handle %s' % (holder.slot, a['O'][0].slot))
    def ask():
        w.emit('haslinkh ref %s handle %s linked' % (a['T'][0].slot, a['A'][0].slot)); w.emit('haslinkh ref %s handle %s foreign' % (a['T'][0].slot, o['A'][0].slot))
        w.emit('haslinkh ref %s handle %s foreign' % (a['T'][0].slot, a['A'][1].slot))
        w.emit('haslinkh ref %s handle %s linked' % (a['M'][0].slot, a['A'][1].slot)); w.emit('haslinkh ref %s handle %s foreign' % (a['M'][0].slot, o['A'][1].slot))
        for rel, k in (('mA', 'A'), ('mD', 'D'), ('mT', 'T'), ('mM', 'M')):
            w.emit('haslinkh %s %s handle %s linked' % (rel, a['G'][0].slot, a[k][0].slot)); w.emit('haslinkh %s %s handle %s foreign' % (rel, a['G'][0].slot, o[k][0].slot))
        for holder in (a['A'][0], a['T'][0], a['G'][0]):
            w.emit('haslinkh src %s handle %s linked' % (holder.slot, a['O'][0].slot)); w.emit('haslinkh src %s handle %s foreign' % (holder.slot, o['O'][0].slot))
        for k in ('A', 'D', 'T', 'M', 'G', 'O'):
            w.emit('has %s %s handle %s' % (k, bs[0].slot, a[k][0].slot)); w.emit('has %s %s handle %s' % (k, bs[0].slot, o[k][0].slot))
    ask()
    w.reopen('rw')
    ask()
    return w.lines

def empty_containers_case(rng):
    """holders that never had a reference / a source / a member, and entities of OTHER parents: asked by name, id and handle — in the
    session that made them, after a reopen read-write and after a reopen READ-ONLY (a query must not need to create anything);
    File- and parent-level queries about entities that live elsewhere in the tree (a section below another section asked of the
    file, a source below another source asked of the block, an array of another block) answer false / none"""
    w = World(rng, names=PLAIN)
    w.open('ow')
    bs = [w.mk('B', None), w.mk('B', None)]
    for b in bs:
        for k in ('A', 'A', 'D', 'T', 'M', 'G', 'O'):
            w.mk(k, b)
        o = w.pick('O', parent=b.slot)
        w.mk('O', o); w.mk('O', w.pick('O', parent=o.slot))
    s1 = w.mk('S', None); s2 = w.mk('S', s1); w.mk('S', s2); w.mk('S', None)
    # holders that are asked nothing at all before the read-only session
    late = set()
    for b in bs:
        for k in ('T', 'M', 'G', 'A'):
            late.add(w.mk(k, b).name + '@' + b.slot)
    def ask(with_late=False):
        for b in bs:
            arrays = w.alive('A'); srcs = w.alive('O')
            skip = (lambda e: False) if with_late else (lambda e: (e.name + '@' + b.slot) in late)
            for t in w.alive(['T', 'M'], block=b.slot):
                if skip(t): continue
                for a in rng.sample(arrays, min(3, len(arrays))):
                    w.emit('haslink ref %s %s' % (t.slot, rng.choice(['idof ' + a.slot, 'name ' + S(a.name)])))
                    w.emit('haslinkh ref %s handle %s foreign' % (t.slot, a.slot))
                w.emit('countlink ref %s' % t.slot); w.emit('xlinks ref %s' % t.slot)
            for h in w.alive(['A', 'D', 'T', 'M', 'G'], block=b.slot):
                if skip(h): continue
                for o in rng.sample(srcs, min(2, len(srcs))):
                    w.emit('haslink src %s idof %s' % (h.slot, o.slot))
                w.emit('countlink src %s' % h.slot)
            for g in w.alive('G', block=b.slot):
                if skip(g): continue
                for e in rng.sample(w.alive(['A', 'D', 'T', 'M']), 4):
                    w.emit('haslink %s %s %s' % (REL_OF[e.kind], g.slot, rng.choice(['idof ' + e.slot, 'name ' + S(e.name)])))
                    w.emit('haslinkh %s %s handle %s foreign' % (REL_OF[e.kind], g.slot, e.slot))
        # entities asked of a parent they do not belong to
        for e in w.alive(['S', 'O', 'A', 'D', 'T', 'M', 'G']):
            pars = [p for p in w.alive('B' if e.kind != 'S' else 'S') if p.slot != e.parent and p.slot != e.slot] + ([None] if e.kind == 'S' and e.parent != '$F' else [])
            if e.kind == 'O': pars += [p for p in w.alive('O') if p.slot != e.parent and p.slot != e.slot]
            for p in rng.sample(pars, min(2, len(pars))):
                ps = p.slot if p else '$F'
                w.emit('has %s %s idof %s' % (e.kind, ps, e.slot))
                w.emit('has %s %s handle %s' % (e.kind, ps, e.slot))
                w.emit('get $q %s %s idof %s' % (e.kind, ps, e.slot))
    ask()
    w.reopen('rw'); ask()
    w.reopen('ro'); ask(with_late=True)
    w.emit('dump')
    return w.lines

def cases(tier, seed, rng):
    from vlib.runner import Case
    n = 60 if tier == 'quick' else 1500
    out = [Case(history(rng, tier, k % 3 != 0), 'gen:names' + ('-uuid' if k % 3 != 0 else '')) for k in range(n)]
    out += [Case(source_name_case(rng), 'gen:pattern-like-source-names') for _ in range(4 if tier == 'quick' else 60)]
    out += [Case(feature_case(rng), 'gen:features-by-data-array') for _ in range(8 if tier == 'quick' else 150)]
    out += [Case(prefix_names_case(rng), 'gen:prefix-names') for _ in range(4 if tier == 'quick' else 60)]
    out += [Case(empty_containers_case(rng), 'gen:empty-containers-and-wrong-parents') for _ in range(3 if tier == 'quick' else 40)]
    out += [Case(C04.source_chain_case(rng), 'gen:source-chain') for _ in range(4 if tier == 'quick' else 60)]
    out += [Case(twin_blocks_case(rng), 'gen:twin-blocks') for _ in range(2 if tier == 'quick' else 30)]
    return out

def nontrivial(case, tags):
    return sum(1 for t in tags if t.startswith('xcheck') or t.startswith('xlinks')) >= 2
def signature(f):
    tag = f.tag()
    if f.rule().endswith('_for_uuid_shaped_names'):
        tag = 'xlinks' if tag.startswith('xlinks') else tag      # one defect (K1), reached through every link container
    return '%s:%s:%s' % (f.kind, tag, f.rule())
