"""C03 — names unique per parent; name / id / index lookups, counts and order agree."""
from vlib.tok import s as S
from checks.storegen import World, NAMES, PLAIN, BLOCK_KINDS
ID = 'C03'
THEOREMS = []
RULE = ('random create / delete / re-create histories over every container kind (blocks, nested sections, nested sources, data arrays, data frames, '
        'tags, multi-tags, groups, properties, features, tag references, group members, entity sources) with an adversarial name pool (UUID-shaped, '
        '"..", case / whitespace twins, UTF-8, names of internal containers); after every few mutations every container of every parent is '
        'cross-checked through every access path (index, name, id, has by name / id / handle, count, enumeration) and against the creation order; '
        'close + reopen in between. non-trivial = a container with >= 2 children was cross-checked; distinct = distinct op text.')
TRUSTED = ['harness op xcheck / xlinks (calls every public lookup of the container)', 'HDF5 creation-order index']
ASSUMPTIONS = ['entity sources offer has-by-id only (documented signature)']

def history(rng, tier, uuid_names):
    w = World(rng, names=NAMES if uuid_names else PLAIN)
    w.open('ow')
    n = rng.randint(15, 40 if tier == 'quick' else 90)
    for i in range(n):
        w.random_step()
        if rng.random() < 0.18:
            w.xcheck_all()
        if rng.random() < 0.04:
            w.reopen('rw')
            w.xcheck_all()
    w.xcheck_all()
    w.reopen(rng.choice(['ro', 'rw']))
    w.xcheck_all()
    return w.lines

def cases(tier, seed, rng):
    from vlib.runner import Case
    n = 60 if tier == 'quick' else 1500
    return [Case(history(rng, tier, k % 3 != 0), 'gen:names' + ('-uuid' if k % 3 != 0 else '')) for k in range(n)]

def nontrivial(case, tags):
    return sum(1 for t in tags if t.startswith('xcheck') or t.startswith('xlinks')) >= 2
def signature(f):
    tag = f.tag()
    if f.rule().endswith('_for_uuid_shaped_names'):
        tag = 'xlinks' if tag.startswith('xlinks') else tag      # one defect (K1), reached through every link container
    return '%s:%s:%s' % (f.kind, tag, f.rule())
