"""C17 — position-based slices and DataView windows address exactly their region."""
from vlib.tok import f64, s as S, lst
from checks import regiongen as G
from checks import arraygen as A
ID = 'C17'
THEOREMS = ['Nix.C17.slice_start_after_end', 'Nix.C17.slice_region_spec', 'Nix.C17.slice_arg_given', 'Nix.C17.slice_arg_unspecified', 'Nix.C17.slice_arg_unspecified_own_unit', 'Nix.C17.slice_unspecified_full', 'Nix.C17.ndGt_false_iff', 'Nix.C17.view_oob_rejected', 'Nix.C17.view_read_eq_array_read_shifted', 'Nix.C17.transform_base', 'Nix.C17.inBox_window', 'Nix.C17.view_write_frame', 'Nix.C05.sliceDim_eq']
RULE = ('slices: arrays of rank 1-3 with all descriptor kinds; start/end vectors of length 0..rank (+1), positions on / beside / between / outside '
        'coordinates, start > end, with / without units (own or rescaled), both RangeMatch modes. views: random windows inside arrays of rank 1-3; '
        '(count, offset) requests inside, touching and crossing the window edge; reads and writes interleaved, the array re-read after every write. '
        'non-trivial = the model returned a region / transferred data; distinct = distinct op text.')
TRUSTED = ['lean/NixModel/Region.lean (dataSlice) and lean/NixModel/View.lean (DataView) tied by element-exact correspondence',
           'C07 index kernels, C18 unit scaling', 'HDF5 hyperslab I/O']
ASSUMPTIONS = ['shapes >= 1 in every dimension']

def sline(shape, dims, starts, ends, units, rm):
    return 'slice %s %s %s %s %s %s' % (lst([str(n) for n in shape]), lst([d.tok() for d in dims]), lst([f64(x) for x in starts]),
                                        lst([f64(x) for x in ends]), lst([S(u) for u in units]), rm)

def gen_slice(rng, scaled_range=False):
    if scaled_range:
        # range (and sampled) dimensions that all have a unit, the request in another unit of the same quantity
        rank0 = rng.choice([1, 2, 2, 3])
        shape, dims = G.make_array(rng, rank=rank0, kinds=[rng.choice(['R', 'R', 'S']) for _ in range(rank0)], unit_prob=1.0)
    else:
        shape, dims = G.make_array(rng)
    rank = len(shape)
    ns = rng.choice([rank] * 6 + [max(0, rank - 1)] * 2 + [0, rank + 1])
    ne = ns if rng.random() < 0.85 else rng.choice([max(0, rank - 1), rank, 0])
    starts, ends = [], []
    for i in range(max(ns, ne)):
        d = dims[i] if i < rank else dims[-1]
        p = G.pick_position(d, rng)
        e = p + G.pick_extent(d, p, rng)
        if i < ns: starts.append(p)
        if i < ne: ends.append(e)
    r = rng.random() if not scaled_range else 0.9
    if r < 0.45:
        units = []
    else:
        units = [dims[i].own_unit() for i in range(min(rank, max(ns, ne)))]
        if r > 0.75:
            for i in range(len(units)):
                u = units[i]
                if u in G.TIME_UNITS + G.VOLT_UNITS and (i < len(starts) or i < len(ends)):
                    # another unit of the same quantity, also when only the start or only the end is given
                    fam = G.TIME_UNITS if u in G.TIME_UNITS else G.VOLT_UNITS
                    v = rng.choice(fam)
                    a = G.rescale(starts[i], u, v) if i < len(starts) else 0.0
                    b = G.rescale(ends[i], u, v) if i < len(ends) else 0.0
                    if a is not None and b is not None:
                        if i < len(starts): starts[i] = a
                        if i < len(ends): ends[i] = b
                        units[i] = v
        if rng.random() < 0.15 and units: units = units[:-1]
    if rng.random() < 0.12:
        # units for MORE dimensions than start / end entries — the dimension's own unit or another one of the same quantity: an
        # unspecified dimension is returned in full, whatever unit is given for it
        units = units[:]
        for i in range(len(units), rank):
            u = dims[i].own_unit()
            if u in G.TIME_UNITS + G.VOLT_UNITS and rng.random() < 0.7:
                u = rng.choice(G.TIME_UNITS if u in G.TIME_UNITS else G.VOLT_UNITS)
            units.append(u)
    return shape, dims, starts, ends, units

def view_history(rng, tier):
    dt = rng.choice(['Int32', 'Double', 'Int64', 'UInt8', 'String', 'Float'])
    shape = A.shape_for(rng, rank=rng.choice([1, 2, 2, 3]))
    shape = [x + rng.choice([0, 2, 4]) for x in shape]
    rank = len(shape)
    lines = ['da_new %s %s none auto' % (dt, A.idx(shape))]
    # fill the array so that every element is distinguishable
    vals = [A.small_value(dt, rng) if dt != 'String' else 'x' + ('e%d' % k).encode().hex() for k in range(A.prod(shape))]
    lines.append('da_wr %s %s %s %s' % (dt, A.idx(shape), A.idx([0] * rank), lst(vals)))
    for _ in range(rng.randint(1, 3)):
        # a window: mostly inside, sometimes crossing the array edge (constructor must refuse), sometimes wrong rank
        off, cnt = A.sub_box(shape, rng, may_exceed=0.08)
        if rng.random() < 0.05: cnt = cnt + [1]
        lines.append('dv_new %s %s' % (A.idx(cnt), A.idx(off)))
        wcnt = cnt[:rank]
        for _ in range(rng.randint(3, 8 if tier == 'quick' else 16)):
            # a request relative to the window: inside / touching the edge / crossing it
            roff, rcnt = [], []
            for n_ in wcnt:
                o = rng.randrange(0, max(1, n_))
                c = rng.randint(1, max(1, n_ - o))
                q = rng.random()
                if q < 0.12: c = max(1, n_ - o)            # touching the edge
                elif q < 0.24: c = max(1, n_ - o) + rng.randint(1, 2)   # crossing it
                roff.append(o); rcnt.append(c)
            q = rng.random()
            if rng.random() < 0.04 and roff:               # an offset / a count near the maximum of the index type: the sum wraps around
                k_ = rng.randrange(len(roff))
                if rng.random() < 0.6: roff[k_] = 2 ** 64 - rng.choice([1, 1, 2, 3])
                else: rcnt[k_] = 2 ** 64 - rng.choice([1, 2])
            if q < 0.1: roff = []                          # offset omitted
            if q > 0.93: rcnt = []                         # count omitted: the whole window
            if q > 0.97: roff = roff + [0]                 # wrong rank
            if 0.80 < q <= 0.87:                           # a count of another rank, with and without an offset
                rcnt = rcnt[:-1] if len(rcnt) > 1 and rng.random() < 0.6 else rcnt + [1]
                if rng.random() < 0.6: roff = []
            n_el = A.prod(rcnt) if rcnt else A.prod(wcnt)
            if n_el > 4096: n_el = 4            # a request that cannot be served: the buffer handed in need not hold it
            if rng.random() < 0.2 and len(wcnt) == rank and all(x > 0 for x in wcnt):
                # typed transfers of one value / of a vector the library sizes, through the window
                lines.append(A.typed_op(rng, 'dv', dt, wcnt, val=(lambda: 'x' + ('w%d' % rng.randrange(1000)).encode().hex()) if dt == 'String' else None))
                lines.append('da_rd %s %s %s %d' % (dt, A.idx(shape), A.idx([0] * rank), A.prod(shape)))
            elif rng.random() < 0.55:
                lines.append('dv_rd %s %s %s %d' % (dt, A.idx(rcnt), A.idx(roff), n_el))
            else:
                v = [A.small_value(dt, rng) if dt != 'String' else 'x' + ('w%d' % rng.randrange(1000)).encode().hex() for _ in range(n_el)]
                lines.append('dv_wr %s %s %s %s' % (dt, A.idx(rcnt), A.idx(roff), lst(v)))
                lines.append('da_rd %s %s %s %d' % (dt, A.idx(shape), A.idx([0] * rank), A.prod(shape)))   # nothing else may change
    return lines

def cases(tier, seed, rng):
    from vlib.runner import Case
    nv = 250 if tier == 'quick' else 6000
    views = [Case(view_history(rng, tier), 'gen:view') for _ in range(nv)]
    return views + slice_cases(tier, seed, rng)

def gen_one_sided(rng):
    """only the start or only the end given for a sampled / range dimension that has a unit, in another unit of the same quantity:
    the given bound has to be scaled into the dimension's unit, the filled-in one must not be"""
    for _ in range(100):
        rank = rng.choice([1, 1, 2])
        shape, dims = G.make_array(rng, rank=rank, kinds=[rng.choice('SR') for _ in range(rank)], unit_prob=1.0)
        i = rank - 1
        d = dims[i]
        u = d.own_unit()
        fam = G.TIME_UNITS if u in G.TIME_UNITS else G.VOLT_UNITS
        v = rng.choice([x for x in fam if x != u])
        starts, ends = [], []
        for j in range(rank):
            p = G.pick_position(dims[j], rng)
            starts.append(p); ends.append(p + G.pick_extent(dims[j], p, rng))
        units = [dims[j].own_unit() for j in range(rank)]
        only_start = rng.random() < 0.5
        x = G.rescale(starts[i] if only_start else ends[i], u, v)
        if x is None: continue
        units[i] = v
        if only_start:
            starts[i] = x; ends = ends[:i]
        else:
            ends[i] = x; starts = starts[:i]
        return shape, dims, starts, ends, units
    return gen_slice(rng)

def slice_cases(tier, seed, rng):
    from vlib.runner import Case
    n = 1000 if tier == 'quick' else 25000
    out, batch = [], []
    for k in range(n):
        shape, dims, starts, ends, units = gen_one_sided(rng) if k % 12 == 11 else gen_slice(rng, scaled_range=(k % 12 == 5))
        for rm in ('incl', 'excl'):
            batch.append(sline(shape, dims, starts, ends, units, rm))
        if len(batch) >= 200:
            out.append(Case(batch, 'gen:slice')); batch = []
    if batch: out.append(Case(batch, 'gen:slice'))
    return out

def nontrivial(case, tags):
    return any(t.endswith('.ok') for t in tags)
def minimal_view(f):
    return None
def signature(f):
    return '%s:%s:%s' % (f.kind, f.tag().split('.')[0], f.rule())
def minimal(f):
    return [f.case.lines[f.line_no]] if f.case.lines[f.line_no].startswith('slice') else None

LEVEL_TEXT = ('Lean 4 theorems: per dimension a slice is exactly the indices with coordinates in [start,end] / [start,end) (or the first index at or after start when start = end and the interval is empty), start > end is refused, unspecified dimensions are filled in and returned in full in both modes; a DataView request extending past the window in any dimension is refused with OutOfBounds without transferring data, a read is the array read at origin + offset, and a write through a view changes nothing outside the window (all ranks, windows and requests). Slices and views tied to dataSlice / DataView by element-exact correspondence with the history rule of C01 re-checking the whole array after every view write.')
LEVEL_NOTE = ('Trusted: as C05 and C01.')
