"""C17 — position-based slices and DataView windows address exactly their region."""
from vlib.tok import f64, s as S, lst
from checks import regiongen as G
ID = 'C17'
THEOREMS = []
RULE = ('slices: arrays of rank 1-3 with all descriptor kinds; start/end vectors of length 0..rank (+1), positions on / beside / between / outside '
        'coordinates, start > end, with / without units (own or rescaled), both RangeMatch modes. views: random windows inside arrays of rank 1-3; '
        '(count, offset) requests inside, touching and crossing the window edge; reads and writes interleaved, the array re-read after every write. '
        'non-trivial = the model returned a region / transferred data; distinct = distinct op text.')
TRUSTED = ['lean/NixModel/Region.lean (dataSlice) and lean/NixModel/View.lean (DataView) tied by element-exact correspondence',
           'C07 index kernels, C18 unit scaling', 'HDF5 hyperslab I/O']
ASSUMPTIONS = ['shapes >= 1 in every dimension']

def sline(shape, dims, starts, ends, units, rm):
    return 'slice %s %s %s %s %s %s' % (lst([str(n) for n in shape]), lst([d.tok() for d in dims]), lst([f64(x) for x in starts]),
                                        lst([f64(x) for x in ends]), lst([S(u) for u in units]), rm)

def gen_slice(rng):
    shape, dims = G.make_array(rng)
    rank = len(shape)
    ns = rng.choice([rank] * 6 + [max(0, rank - 1)] * 2 + [0, rank + 1])
    ne = ns if rng.random() < 0.85 else rng.choice([max(0, rank - 1), rank, 0])
    starts, ends = [], []
    for i in range(max(ns, ne)):
        d = dims[i] if i < rank else dims[-1]
        p = G.pick_position(d, rng)
        e = p + G.pick_extent(d, p, rng)
        if i < ns: starts.append(p)
        if i < ne: ends.append(e)
    r = rng.random()
    if r < 0.45:
        units = []
    else:
        units = [dims[i].own_unit() for i in range(min(rank, max(ns, ne)))]
        if r > 0.75:
            for i in range(len(units)):
                u = units[i]
                if u in G.TIME_UNITS + G.VOLT_UNITS and i < len(starts) and i < len(ends):
                    fam = G.TIME_UNITS if u in G.TIME_UNITS else G.VOLT_UNITS
                    v = rng.choice(fam)
                    a, b = G.rescale(starts[i], u, v), G.rescale(ends[i], u, v)
                    if a is not None and b is not None:
                        starts[i], ends[i], units[i] = a, b, v
        if rng.random() < 0.15 and units: units = units[:-1]
    return shape, dims, starts, ends, units

def cases(tier, seed, rng):
    from vlib.runner import Case
    n = 1000 if tier == 'quick' else 25000
    out, batch = [], []
    for k in range(n):
        shape, dims, starts, ends, units = gen_slice(rng)
        for rm in ('incl', 'excl'):
            batch.append(sline(shape, dims, starts, ends, units, rm))
        if len(batch) >= 200:
            out.append(Case(batch, 'gen:slice')); batch = []
    if batch: out.append(Case(batch, 'gen:slice'))
    return out

def nontrivial(case, tags):
    return any(t.endswith('.ok') for t in tags)
def signature(f):
    return '%s:%s:%s' % (f.kind, f.tag().split('.')[0], f.rule())
def minimal(f):
    return [f.case.lines[f.line_no]]
