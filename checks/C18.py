"""C18 — unit scaling is exact, reciprocal and transparent to retrieval."""
import json, os, zlib
from vlib.tok import s as S, f64
ID = 'C18'
THEOREMS = ['Nix.C18.' + t for t in [
    'units_first_alt_self', 'prefix_first_alt', 'no_caret', 'unit_not_prefixed', 'split_no_power', 'split_print_roundtrip',
    'prefix_unit_unambiguous', 'isSI_mk', 'scalable_mk', 'scalable_symm', 'scalable_iff_same_base_and_power', 'nonSI_rejected',
    'prefix_table_correct', 'table_lookup', 'scaling_exponent', 'scaling_reciprocal', 'scaling_compose']]
RULE = ('exhaustive over the generated tables: every (prefix|none) x base unit x power {none, +-1..+-3, +2 with sign} string for splitUnit / '
        'isSIUnit; every ordered pair of prefixes per (unit, power) for getSIScaling in both directions; prefix triples for composition '
        '(all for 3 units in quick, sampled otherwise); non-SI / different base / different power pairs; malformed strings. '
        'non-trivial = the model path is a successful split / scaling; distinct = distinct op line.')
EXHAUSTIVE = {'quick': True, 'thorough': True}
TRUSTED = ['lean/NixModel/Units.lean: hand-written model of the boost::regex based grammar (leftmost-first alternation) and of getSIScaling, tied by exhaustive correspondence over the tables',
           'gen/extract_tables.py: PREFIXES / UNITS / PREFIX_EXPONENTS extracted from src/util/util.cpp on every run',
           'Lean Float.ofScientific and C++ std::stod both round the literal 1e<k> correctly (compared bit-exactly for every k that occurs)']
ASSUMPTIONS = ['powers -3..3 as the property states; compound units only through isSIUnit/isScalable']

def tables():
    p = os.path.join(os.path.dirname(os.path.dirname(__file__)), 'lean/NixModel/Gen/Tables.lean.json')
    return json.load(open(p))

def cases(tier, seed, rng):
    from vlib.runner import Case
    T = tables()
    prefixes = [''] + T['prefixes']
    units = T['units']
    powers = ['', '1', '2', '3', '-1', '-2', '-3', '+2']
    quick = tier == 'quick'
    out = []
    lines = []
    for p in prefixes:
        for u in units:
            for n in powers:
                lines.append('usplit3 %s %s %s' % (S(p), S(u), S(n)))
                lines.append('uissi %s' % S(p + u + ('^' + n if n else '')))
    out.append(Case(lines, 'gen:split-grid'))
    # scaling: every ordered prefix pair
    lines = []
    for u in (units if not quick else units[:8] + ['mol', 'Sv', 'Wb', 'Ohm', '%', 'rad']):
        for n in (powers[:7] if not quick else ['', '2', '-1', '-3']):
            for p1 in prefixes:
                for p2 in prefixes:
                    if quick and (zlib.crc32(repr((p1, p2, u, n)).encode()) % 3):
                        continue
                    lines.append('uscale3 %s %s %s %s' % (S(p1), S(p2), S(u), S(n)))
    out.append(Case(lines, 'gen:scale-pairs'))
    # the pairs the retrieval code uses most: time and voltage, all prefixes, plain
    lines = []
    for u in ('s', 'V', 'Hz', 'm', 'mol'):
        for p1 in prefixes:
            for p2 in prefixes:
                lines.append('uscale3 %s %s %s %s' % (S(p1), S(p2), S(u), S('')))
    out.append(Case(lines, 'gen:scale-plain'))
    # composition
    lines = []
    trip_units = ['s', 'mol', 'V'] if quick else units
    for u in trip_units:
        for n in (['', '2'] if quick else ['', '2', '-1', '-3']):
            for p1 in prefixes:
                for p2 in prefixes:
                    for p3 in prefixes:
                        if rng.random() < (0.12 if quick else 0.35):
                            lines.append('uscalec %s %s %s %s %s' % (S(p1), S(p2), S(p3), S(u), S(n)))
    out.append(Case(lines, 'gen:scale-triples'))
    # rejections and odd strings
    lines = []
    odd = ['', 'none', 'foo', 'mV/s', 'mV*s', 'kg*m/s^2', 'mV/', '/s', 'm^0', 'm^02', 'm^', 'm^+', 'm^-', 'Km', 'mm', 'mmm', 'dam', 'daL',
           'T', 'mT', 'Tm', 'Pa', 'hPa', 'cd', 'mcd', 'min', 'ms ', ' ms', 'µs', 'us', 'mus', 'Ohm', 'kOhm', '%', 'dB', 'mol^2', 'mmol^2',
           'Sv^-1', 'uSv^-1', 'Wb^3', 'nWb^3', 'kat', 'ukat', 'l', 'L', 'ml', 'mL', 'rad', 'mrad', 'm^10', 'mm^12', 'mV^2/s', 'V^2*s^-1']
    for x in odd:
        lines.append('usplit %s' % S(x))
        lines.append('uissi %s' % S(x))
    some = ['mV', 'V', 'kV', 'ms', 's', 'us', 'mV^2', 'V^2', 'mol', 'mmol', 'mmol^2', 'mol^2', 'foo', '', 'mV/s', 'V/s', 'Hz', 'kHz', 'm', 'mm', 'S', 'mS', 'Sv', 'mSv',
            # one power, several spellings (scalability is symmetric and the factors reciprocal whichever spelling is on which side)
            'm^1', 'mm^1', 'm^+1', 'km^+1', 'm^2', 'mm^2', 'm^+2', 'mm^+2', 's^-1', 'ms^-1', 'V^1', 'mV^+1', 'Ohm', 'kOhm', 'mOhm', 'Ohm^2', 'kOhm^2']
    for x in some + odd[:20]:
        for y in some:
            lines.append('uscalable %s %s' % (S(x), S(y)))
            lines.append('uscale %s %s' % (S(x), S(y)))
    out.append(Case(lines, 'gen:rejections'))
    out.append(Case(retrieval_lines(tier, rng), 'gen:retrieval-invariance'))
    return out

# --- retrieval transparency: a request expressed in a larger-prefix unit with numerically rescaled values -------------
SI_EXP = {'Y': 24, 'Z': 21, 'E': 18, 'P': 15, 'T': 12, 'G': 9, 'M': 6, 'k': 3, 'h': 2, 'da': 1, '': 0, 'd': -1, 'c': -2, 'm': -3,
          'u': -6, 'n': -9, 'p': -12, 'f': -15, 'a': -18, 'z': -21, 'y': -24}

def retrieval_lines(tier, rng):
    from fractions import Fraction
    from vlib.tok import f64, lst
    lines = []
    prefs = list(SI_EXP)
    n = 14
    for base in ('s', 'V', 'Hz'):
        for d in (2.0 ** -13, 2.0 ** -10, 2.0 ** -16, 0.25, 1.0, 3.0):          # sample spacing in the REQUEST unit
            for pa in (['m', 'u', '', 'k', 'n'] if tier == 'quick' else prefs):
                for pr in prefs:
                    k = SI_EXP[pr] - SI_EXP[pa]
                    if k < 0 or k > 12:
                        continue            # the library multiplies the request by 10^k: exact only for k >= 0
                    si = d * 10.0 ** k      # the same spacing in the AXIS unit
                    if Fraction(si) != Fraction(d) * Fraction(10) ** k:
                        continue
                    axis_unit, req_unit = pa + base, pr + base
                    dims = '[S:%s:~:%s]' % (f64(si), S(axis_unit))
                    i, j = rng.randrange(0, n - 4), rng.randrange(1, 4)
                    pf, ef = i * d, j * d                       # request values (exact: d is dyadic or small)
                    p_axis, e_axis = i * si, j * si             # the same request written in the axis unit
                    ok = (Fraction(pf) * Fraction(10) ** k == Fraction(pf * 10.0 ** k) == Fraction(p_axis)
                          and Fraction(pf + ef) * Fraction(10) ** k == Fraction((pf + ef) * 10.0 ** k) == Fraction(p_axis + e_axis)
                          and Fraction(pf + ef) == Fraction(pf) + Fraction(ef))
                    if not ok:
                        continue
                    for rm in ('incl', 'excl'):
                        lines.append('tag_data [%d] %s %s %s %s %s' % (n, dims, lst([f64(pf)]), lst([f64(ef)]), lst([S(req_unit)]), rm))
                        lines.append('tag_data [%d] %s %s %s %s %s' % (n, dims, lst([f64(p_axis)]), lst([f64(e_axis)]), lst([S(axis_unit)]), rm))
                        lines.append('slice [%d] %s %s %s %s %s' % (n, dims, lst([f64(pf)]), lst([f64(pf + ef)]), lst([S(req_unit)]), rm))
                        lines.append('mtag_data1 [%d] %s %s 1 %s %s 0 %s' % (n, dims, lst([f64(pf)]), lst([f64(ef)]), lst([S(req_unit)]), rm))
                        # several positions in ONE request (every one of them has to be rescaled, not only the first)
                        i2 = rng.randrange(0, n - 4); p2 = i2 * d
                        ok2 = (Fraction(p2) * Fraction(10) ** k == Fraction(p2 * 10.0 ** k) == Fraction(i2 * si)
                               and Fraction(p2 + ef) * Fraction(10) ** k == Fraction((p2 + ef) * 10.0 ** k) == Fraction(i2 * si + e_axis)
                               and Fraction(p2 + ef) == Fraction(p2) + Fraction(ef))
                        if ok2:
                            for sel in ('[]', '[1,0]', '[0,1,1]'):
                                lines.append('mtag_data [%d] %s %s 1 %s %s %s %s' % (n, dims, lst([f64(pf), f64(p2)]), lst([f64(ef), f64(ef)]), lst([S(req_unit)]), sel, rm))
    # two dimensions whose request units DIFFER from one another (and from the axes'): every dimension is rescaled with its own pair
    for _ in range(40 if tier == 'quick' else 600):
        d = rng.choice([0.25, 1.0, 2.0 ** -10])
        pairs = [rng.choice([('m', ''), ('u', 'm'), ('m', 'm'), ('', 'k'), ('n', 'u'), ('u', '')]) for _ in range(2)]
        base = [rng.choice(['s', 'V']) for _ in range(2)]
        ks = [SI_EXP[pr] - SI_EXP[pa] for pa, pr in pairs]
        sis = [d * 10.0 ** k for k in ks]
        if any(Fraction(si) != Fraction(d) * Fraction(10) ** k for si, k in zip(sis, ks)): continue
        dims = '[%s]' % ','.join('S:%s:~:%s' % (f64(si), S(pa + b)) for si, (pa, pr), b in zip(sis, pairs, base))
        units = lst([S(pr + b) for (pa, pr), b in zip(pairs, base)])
        rows = []
        for _r in range(2):
            i = [rng.randrange(0, n - 4) for _ in range(2)]; j = [rng.choice([0, 1, 2, 3]) for _ in range(2)]
            rows.append(([x * d for x in i], [x * d for x in j]))
        exact = all(Fraction(v * 10.0 ** k) == Fraction(v) * Fraction(10) ** k and Fraction((v + e) * 10.0 ** k) == (Fraction(v) + Fraction(e)) * Fraction(10) ** k
                    for (ps, es) in rows for v, e, k in zip(ps, es, ks))
        if not exact: continue
        pos = lst([';'.join(f64(v) for v in ps) for ps, _e in rows]); ext = lst([';'.join(f64(v) for v in es) for _p, es in rows])
        for rm in ('incl', 'excl'):
            for sel in ('[]', '[1,0]'):
                lines.append('mtag_data [%d,%d] %s %s 0 %s %s %s %s' % (n, n, dims, pos, ext, units, sel, rm))
            lines.append('mtag_data [%d,%d] %s %s 0 ~ %s [0,1] %s' % (n, n, dims, pos, units, rm))      # points
            lines.append('tag_data [%d,%d] %s %s %s %s %s' % (n, n, dims, lst([f64(v) for v in rows[0][0]]), lst([f64(v) for v in rows[0][1]]), units, rm))
    # one-sided slices (only a start, or only an end) in a scaled unit on an axis that does not start at 0: the bound that is filled
    # in from the axis is already in the axis unit and must not be rescaled with the given one
    for base in ('s', 'V'):
        for d in (2.0 ** -10, 0.25, 1.0):
            for pa, pr in (('m', ''), ('u', 'm'), ('', 'k'), ('m', 'k'), ('n', 'u')):
                k = SI_EXP[pr] - SI_EXP[pa]
                si = d * 10.0 ** k
                if Fraction(si) != Fraction(d) * Fraction(10) ** k: continue
                for o in (3, 64):
                    off_req, off_axis = o * d, o * si
                    i = rng.randrange(1, n - 2)
                    c_req, c_axis = off_req + i * d, off_axis + i * si
                    if not (Fraction(off_axis) == Fraction(off_req) * Fraction(10) ** k and Fraction(c_req) == Fraction(off_req) + i * Fraction(d)
                            and Fraction(c_req * 10.0 ** k) == Fraction(c_req) * Fraction(10) ** k == Fraction(c_axis)): continue
                    dims = '[S:%s:%s:%s]' % (f64(si), f64(off_axis), S(pa + base))
                    for rm in ('incl', 'excl'):
                        lines.append('slice [%d] %s [] %s %s %s' % (n, dims, lst([f64(c_req)]), lst([S(pr + base)]), rm))
                        lines.append('slice [%d] %s %s [] %s %s' % (n, dims, lst([f64(c_req)]), lst([S(pr + base)]), rm))
                        lines.append('slice [%d] %s [] %s %s %s' % (n, dims, lst([f64(c_axis)]), lst([S(pa + base)]), rm))
    if tier == 'quick' and len(lines) > 3600:
        lines = lines[::max(1, len(lines) // 3600)]
    return lines

def nontrivial(case, tags):
    return any(t.startswith('usplit3') or t in ('uscale3', 'uscalec', 'uscale.ok') or t.endswith('.ok') for t in tags)

def signature(f):
    return '%s:%s:%s' % (f.kind, f.tag().split('.')[0], f.rule())

def minimal(f):
    return [f.case.lines[f.line_no]]

LEVEL_TEXT = ('Lean 4 theorems over the alternation and exponent tables regenerated from src/util/util.cpp on every run: every printed '
              'prefix+unit^power (any well-formed power) splits back into its parts, prefix/unit never ambiguous, the exponent table is the SI '
              'table, factor exponent = power*(exp_a-exp_b), reciprocal, composition, symmetry of scalability, same base and power iff scalable, '
              'non-SI rejected. Table facts by kernel decide (no native_decide). The regex-level model is tied to the library by exhaustive '
              'bit-exact correspondence over prefix x unit x power and all prefix pairs.')
LEVEL_NOTE = ('Trusted: Lean kernel; the model of boost::regex leftmost-first alternation search and of getSIScaling (validated exhaustively each run); '
              'table extractor; correct rounding of 1e<k> by std::stod and Lean Float.ofScientific (compared bit-exactly). Retrieval invariance is '
              'checked through C05/C06/C17 with units.')
