"""C20 — tree searches and back-reference queries equal a brute-force traversal."""
from vlib.tok import s as S, lst
from checks.storegen import World
ID = 'C20'
THEOREMS = [
    'Nix.C20.findSections_eq_levelOrder', 'Nix.C20.findSources_eq_levelOrder',
    'Nix.C20.fileFindSections_eq_perRoot', 'Nix.C20.blockFindSources_eq_perRoot',
    'Nix.C20.file_find_perm_bruteforce', 'Nix.C20.block_find_perm_bruteforce',
    'Nix.C20.unlimited_depth_all_descendants', 'Nix.C20.unlimited_depth_all_sources',
    'Nix.C20.unlimited_depth_whole_file', 'Nix.C20.unlimited_depth_whole_block', 'Nix.C20.depth_beyond_height',
    'Nix.C20.find_nodup', 'Nix.C20.findSources_nodup', 'Nix.C20.fileFind_nodup', 'Nix.C20.blockFind_nodup',
    'Nix.C20.resolveSection_sound', 'Nix.C20.resolveSection_complete', 'Nix.C20.metaFilter_iff',
    'Nix.C20.referringBlocks_eq_bruteforce', 'Nix.C20.referringDataArrays_eq_bruteforce', 'Nix.C20.referringTags_eq_bruteforce',
    'Nix.C20.referringMultiTags_eq_bruteforce', 'Nix.C20.referringSources_perm_bruteforce', 'Nix.C20.referringDataArraysIn_eq_bruteforce',
    'Nix.C20.referringTagsIn_eq_bruteforce', 'Nix.C20.referringMultiTagsIn_eq_bruteforce', 'Nix.C20.referringSourcesIn_perm_bruteforce', 'Nix.C20.referringSourcesIn_nodup',
    'Nix.C20.srcReferring_mem', 'Nix.C20.srcReferring_sublist',
    'Nix.C20.parentSource_sound', 'Nix.C20.parentSource_spec', 'Nix.C20.parentSource_none', 'Nix.C20.parentSource_root',
    'Nix.C20.inherited_eq_own_plus_unshadowed', 'Nix.C20.inherited_without_link', 'Nix.C20.inherited_link_target',
    'Nix.C20.findDownstream_spec', 'Nix.C20.findDownstream_complete', 'Nix.C20.findDownstream_sound', 'Nix.C20.findAmongParents_spec', 'Nix.C20.findSideways_spec', 'Nix.C20.findRelated_chain',
]
LEAN_MODULES = ['NixModel.Props.C20']
FLAVOUR = {'quick': 'plain', 'thorough': 'asan'}
RULE = ('random files: 1-3 blocks with data arrays / tags / multi tags and a source forest each, a section forest under the file (chains, bushes, '
        'lop-sided trees; depth up to 5, branching up to 4; few names and types so that equal names recur at different places; UTF-8, UUID-shaped '
        'and long names), properties with names shared between linked sections, metadata links from blocks / arrays / tags / multi tags / sources, '
        'source attachments, section links. After a dump ~30 queries: findSections from the file and from sections, findSources from blocks and '
        'sources with every filter kind (none, AcceptAll, id, id set, name, type, name-and-type lambda) and depth 0 .. height+1, SIZE_MAX and the '
        'default; findRelated; referring* of every kind with and without block; parentSource (also with sources NAMED like the id of another source, '
        'placed where the search meets them first); inheritedProperties. Then random deletions / unlinks, '
        'dump, queries; close + reopen (rw / ro), dump, queries. ~17 % of the queries are malformed (null handles, unknown ids and names, empty and '
        'duplicated id sets, null block). Every answer is judged against the brute-force reading of the dump — positions from the paths, links from the '
        'operations the library accepted, not from its getters — (REL) and against the queue model (DIFF; as sets where the property promises no order). '
        'non-trivial = a case with a non-empty answer of a depth-cut single-start search and a back-reference hit; distinct = distinct op text.')
TRUSTED = ['harness dump (paths, ids, names, types, meta=, srcs=, link= of every entity) as the description of the forest',
           'lean/NixModel/Search.lean: hand transcription of the queue loops and filters; the forest is taken as the getters expose it, HDF5 groups and links are not modelled',
           'TypeFilter is exercised with patterns free of regex metacharacters only (boost::regex is not modelled)']
ASSUMPTIONS = ['entity ids pairwise distinct (C12)',
               'section handles are obtained from their parent (createSection / getSection), so parent() is the real parent chain',
               'links (metadata, section link, attached sources) are those set by the accepted operations of the history; deleting a target removes the links to it (C04)']

NAMES = ['a', 'b', 'c', 'A', 'a ', 'ü €', 'sections', 'aaaaaaaa-bbbb-cccc-dddd-eeeeeeeeeeee', 'n' * 60, '..']
ETYPES = ['t', 'u', 'ü', 'nix.type']
PTYPES = ['t', 'u', 'ü', 'zz', 'T']          # filter patterns: no regex metacharacters
PROPNAMES = ['x', 'y', 'z', 'ü', 'X']
SIZE_MAX = 18446744073709551615


def mk_typed(w, rng, kind, parent):
    typ = rng.choice(ETYPES)
    e = w.mk(kind, parent, typ=typ)
    if e is not None: e.typ = typ
    return e


def grow(w, rng, kind, parent, depth, maxdepth, shape, budget):
    """children of `parent`; returns the number of nodes created"""
    if depth > maxdepth or budget[0] <= 0:
        return
    if shape == 'chain':
        n = 1 if depth < maxdepth else 0
    elif shape == 'bush':
        n = rng.randint(2, 4) if depth <= 2 else rng.randint(0, 1)
    elif shape == 'lopsided':
        n = rng.randint(2, 3)
    else:
        n = rng.choice([0, 1, 1, 2, 2, 3, 4])
    kids = []
    for _ in range(n):
        if budget[0] <= 0:
            break
        c = mk_typed(w, rng, kind, parent)
        if c is None or not c.alive:
            continue
        budget[0] -= 1
        kids.append(c)
    for i, c in enumerate(kids):
        if shape == 'lopsided':
            # only one sibling continues, alternating first / last, so that depth-first and breadth-first orders differ
            if i != (0 if depth % 2 else len(kids) - 1):
                continue
        elif shape == 'any' and rng.random() < 0.35:
            continue
        grow(w, rng, kind, c, depth + 1, maxdepth, shape, budget)


def forest(w, rng, kind, parent, nroots):
    for _ in range(nroots):
        root = mk_typed(w, rng, kind, parent)
        if root is None or not root.alive:
            continue
        shape = rng.choice(['chain', 'bush', 'lopsided', 'lopsided', 'any', 'any', 'any', 'leaf'])
        if shape != 'leaf':
            grow(w, rng, kind, root, 2, rng.choice([2, 3, 4, 5, 5, 5]), shape, [rng.randint(4, 14)])


def alias_sources(w, rng):
    """sources NAMED like the id of another source of the same block, placed where the breadth-first search meets them
    before the real parent (under the root of the victim's tree, or under an earlier root)"""
    for b in w.alive('B'):
        roots = w.alive('O', parent=b.slot)
        deep = [e for e in w.alive('O', block=b.slot) if e.parent != b.slot and parent_of(w, e) is not None and parent_of(w, e).parent != b.slot]
        if not deep or rng.random() < 0.6:
            continue
        v = rng.choice(deep)
        root = ancestors(w, v)[-1]
        earlier = roots[:roots.index(root)] if root in roots else []
        host = rng.choice(earlier) if earlier and rng.random() < 0.5 else root
        slot = w.fresh()
        w.emit('sr_mkalias %s %s %s %s' % (slot, host.slot, v.slot, S('t')))


def subtree_height(w, e):
    kids = w.alive(e.kind, parent=e.slot)
    return 0 if not kids else 1 + max(subtree_height(w, k) for k in kids)


def link_things(w, rng):
    secs = w.alive('S')
    for b in w.alive('B'):
        srcs = w.alive('O', block=b.slot)
        for h in w.alive(['A', 'T', 'M'], block=b.slot):
            for s_ in rng.sample(srcs, min(len(srcs), rng.choice([0, 1, 1, 2, 3]))):
                w.emit('link src %s handle %s' % (h.slot, s_.slot))
    hot = rng.sample(secs, min(len(secs), 3))          # a few sections are used by many holders
    for h in w.alive(['B', 'A', 'T', 'M', 'O']):
        if secs and rng.random() < 0.55:
            w.emit('single metadata %s handle %s' % (h.slot, (rng.choice(hot) if rng.random() < 0.7 else rng.choice(secs)).slot))
    for s_ in secs:
        if len(secs) > 1 and rng.random() < 0.35:
            w.emit('single seclink %s handle %s' % (s_.slot, rng.choice(secs).slot))       # may link to itself
    for s_ in secs:
        if rng.random() < 0.45:
            for name in rng.sample(PROPNAMES, rng.choice([1, 2, 3])):
                w.mk('P', s_, name=name, typ='x')


def descendants(w, e):
    out = []
    for k in w.alive(e.kind, parent=e.slot):
        out.append(k); out.extend(descendants(w, k))
    return out


def parent_of(w, e):
    return next((x for x in w.ents if x.slot == e.parent and x.kind == e.kind), None)


def ancestors(w, e):
    out = []
    p = parent_of(w, e)
    while p is not None:
        out.append(p); p = parent_of(w, p)
    return out


def flt(w, rng, kind, malformed, pool=None):
    """(fkind, farg) for entities of `kind` (S or O); filter values are taken from an entity of `pool` when given"""
    ents = w.alive(kind)
    q = rng.random()
    if malformed:
        return rng.choice([('id', S('no-such-id')), ('id', S('')), ('name', S('no such name')), ('name', S('')), ('ids', '[]'),
                           ('ids', lst([S('zz'), S('zz')])), ('type', S('')), ('nt', '%s:%s' % (S('a'), S('no'))),
                           ('id', S('aaaaaaaa-bbbb-cccc-dddd-eeeeeeeeeeee'))])
    if q < 0.2 or not ents:
        return rng.choice([('all', '~'), ('acc', '~')])
    e = rng.choice(pool) if pool and rng.random() < 0.8 else rng.choice(ents)
    if q < 0.33:
        return 'id', e.slot
    if q < 0.48:
        src = pool if pool and rng.random() < 0.7 else ents
        picks = [x.slot for x in rng.sample(src, min(len(src), rng.randint(1, 4)))]
        if rng.random() < 0.3: picks.append(picks[0])            # a duplicate in the id vector
        if rng.random() < 0.3: picks.append(S('unknown'))
        return 'ids', lst(picks)
    if q < 0.72:
        return 'name', S(e.name)
    if q < 0.88:
        return 'type', S(getattr(e, 'typ', None) if getattr(e, 'typ', None) in PTYPES and rng.random() < 0.8 else rng.choice(PTYPES))
    return 'nt', '%s:%s' % (S(e.name), S(getattr(e, 'typ', None) if getattr(e, 'typ', None) in PTYPES and rng.random() < 0.8 else rng.choice(PTYPES)))


def depth_tok(rng, height):
    q = rng.random()
    if q < 0.2: return 'def'
    if q < 0.24: return str(SIZE_MAX)
    if q < 0.27: return str(SIZE_MAX - 1)
    return str(rng.choice(list(range(0, height + 2)) + list(range(1, height + 1)) + [height + 1, max(0, height - 1), 1]))


def holder_links(w):
    """(metadata: holder slot -> section slot, sources: holder slot -> set of source slots) as the op lines so far say"""
    md, at = {}, {}
    for l in w.lines:
        p = l.split()
        if p[0] == 'single' and p[1] == 'metadata':
            if p[3] == 'handle': md[p[2]] = p[4]
            else: md.pop(p[2], None)
        elif p[0] == 'link' and p[1] == 'src' and p[3] == 'handle':
            at.setdefault(p[2], set()).add(p[4])
        elif p[0] == 'unlink' and p[1] == 'src' and p[3] == 'handle':
            at.get(p[2], set()).discard(p[4])
    return md, at


def queries(w, rng, n):
    secs, srcs, blocks = w.alive('S'), w.alive('O'), w.alive('B')
    md, at = holder_links(w)
    by_slot = {e.slot: e for e in w.ents}
    meta_pairs = [(by_slot[sec], by_slot[h].kind) for h, sec in md.items() if h in by_slot and by_slot[h].alive and by_slot[sec].alive]
    src_pairs = [(by_slot[o], by_slot[h].kind) for h, os_ in at.items() if h in by_slot and by_slot[h].alive and by_slot[h].kind in 'ATM'
                 for o in os_ if by_slot[o].alive]
    inner_secs = [s_ for s_ in secs if w.alive('S', parent=s_.slot)] or secs
    inner_srcs = [s_ for s_ in srcs if w.alive('O', parent=s_.slot)] or srcs
    deep_secs = [s_ for s_ in secs if subtree_height(w, s_) >= 2] or inner_secs
    deep_srcs = [s_ for s_ in srcs if subtree_height(w, s_) >= 2] or inner_srcs
    very_deep = [s_ for s_ in secs if subtree_height(w, s_) >= 4]
    if very_deep: deep_secs = deep_secs + very_deep * 2
    very_deep = [s_ for s_ in srcs if subtree_height(w, s_) >= 4]
    if very_deep: deep_srcs = deep_srcs + very_deep * 2
    file_height = 1 + max([subtree_height(w, s_) for s_ in w.alive('S', parent='$F')] or [-1])
    for _ in range(n):
        bad = rng.random() < 0.17
        q = rng.random()
        if q < 0.27:
            if rng.random() < 0.3 or not secs:
                start, h, pool = '$F', file_height, None
            else:
                e = rng.choice(deep_secs if rng.random() < 0.5 else inner_secs if rng.random() < 0.8 else secs)
                start, h, pool = e.slot, subtree_height(w, e), descendants(w, e)
            if bad and rng.random() < 0.3: start = '$-'
            fk, fa = flt(w, rng, 'S', bad and start != '$-', pool)
            w.emit('sr_findsec %s %s %s %s' % (start, fk, fa, depth_tok(rng, h)))
        elif q < 0.48:
            if not blocks: continue
            if rng.random() < 0.3 or not srcs:
                b = rng.choice(blocks)
                start, h, pool = b.slot, max([subtree_height(w, s_) for s_ in w.alive('O', parent=b.slot)] or [0]), w.alive('O', block=b.slot)
            else:
                e = rng.choice(deep_srcs if rng.random() < 0.5 else inner_srcs if rng.random() < 0.8 else srcs)
                start, h, pool = e.slot, subtree_height(w, e), [e] + descendants(w, e)
            if bad and rng.random() < 0.3: start = rng.choice(['$-O', '$-B'])
            fk, fa = flt(w, rng, 'O', bad and not start.startswith('$-'), pool)
            w.emit('sr_findsrc %s %s %s %s' % (start, fk, fa, depth_tok(rng, h)))
        elif q < 0.66:
            if not secs: continue
            e = rng.choice(secs)
            # aim the filter at a descendant, an ancestor, a sibling / uncle, or anything
            anc = ancestors(w, e)
            side = [x for a in anc for x in w.alive('S', parent=a.slot)]
            r = rng.random()
            pool = descendants(w, e) if r < 0.3 else anc if r < 0.5 else side if r < 0.9 else None
            fk, fa = flt(w, rng, 'S', bad and rng.random() < 0.7, pool or side or anc or None)
            w.emit('sr_related %s %s %s' % ('$-' if bad and rng.random() < 0.2 else e.slot, fk, fa))
        elif q < 0.84:
            if rng.random() < 0.65 and secs:
                if meta_pairs and rng.random() < 0.75:
                    e, hk = rng.choice(meta_pairs)
                    kind = 'sec' + hk if rng.random() < 0.8 else rng.choice(['secA', 'secT', 'secM', 'secO', 'secB'])
                else:
                    e, kind = rng.choice(secs), rng.choice(['secA', 'secT', 'secM', 'secO', 'secB'])
                bl = '~'
                if kind != 'secB' and blocks and rng.random() < 0.4: bl = rng.choice(blocks).slot
                if kind != 'secB' and bad: bl = '$-'
                w.emit('sr_referring %s %s %s' % (kind, '$-' if bad and rng.random() < 0.3 else e.slot, bl))
            elif srcs:
                if src_pairs and rng.random() < 0.75:
                    e, hk = rng.choice(src_pairs)
                    kind = 'src' + hk if rng.random() < 0.8 else rng.choice(['srcA', 'srcT', 'srcM'])
                else:
                    e, kind = rng.choice(srcs), rng.choice(['srcA', 'srcT', 'srcM'])
                w.emit('sr_referring %s %s ~' % (kind, '$-' if bad and rng.random() < 0.5 else e.slot))
        elif q < 0.92:
            if srcs: w.emit('sr_parentsrc %s' % ('$-' if bad and rng.random() < 0.5 else rng.choice(srcs).slot))
        else:
            if secs:
                linked = [by_slot[p.split()[2]] for p in w.lines if p.startswith('single seclink') and ' handle ' in p and by_slot[p.split()[2]].alive]
                e = rng.choice(linked) if linked and rng.random() < 0.7 else rng.choice(secs)
                w.emit('sr_inherited %s' % ('$-' if bad and rng.random() < 0.5 else e.slot))


def mutate(w, rng):
    """random deletions and unlinks"""
    for _ in range(rng.randint(1, 5)):
        q = rng.random()
        if q < 0.45:
            e = w.pick(['S', 'O'])
            if e: w.delete(e, rng.choice(['name', 'handle']))
        elif q < 0.6:
            e = w.pick(['A', 'T', 'M', 'P'])
            if e: w.delete(e, rng.choice(['name', 'handle']))
        elif q < 0.75:
            h = w.pick(['B', 'A', 'T', 'M', 'O'])
            if h: w.emit('single metadata %s none ~' % h.slot)
        elif q < 0.85:
            h = w.pick(['A', 'T', 'M']); s_ = w.pick('O', block=h.block) if h else None
            if h and s_: w.emit('unlink src %s handle %s' % (h.slot, s_.slot))
        elif q < 0.93:
            s1 = w.pick('S')
            if s1: w.emit('single seclink %s none ~' % s1.slot)
        else:
            secs = w.alive('S')
            if secs:
                h = w.pick(['B', 'A', 'T', 'M', 'O'])
                if h: w.emit('single metadata %s handle %s' % (h.slot, rng.choice(secs).slot))


def history(rng, tier):
    w = World(rng, names=NAMES)
    w.open('ow')
    for _ in range(rng.choice([1, 1, 2, 2, 3])):
        b = w.mk('B', None, typ=rng.choice(ETYPES))
        for k in ('A', 'A', 'T', 'M'):
            for _ in range(rng.randint(0, 2)):
                w.mk(k, b, typ=rng.choice(ETYPES))
        forest(w, rng, 'O', b, rng.choice([0, 1, 1, 2, 3]))
    forest(w, rng, 'S', None, rng.choice([1, 1, 2, 3, 4]))
    link_things(w, rng)
    alias_sources(w, rng)
    nq = 36 if tier == 'quick' else 48
    w.emit('dump')
    queries(w, rng, nq // 2)
    rounds = rng.choice([1, 2, 2, 3])
    for i in range(rounds):
        if rng.random() < 0.35:
            w.reopen(rng.choice(['rw', 'rw', 'ro']))
            if w.readonly:
                w.emit('dump'); queries(w, rng, nq // 2)
                break
        else:
            mutate(w, rng)
        w.emit('dump')
        queries(w, rng, max(4, nq // (2 * rounds)))
    return w.lines


def cases(tier, seed, rng):
    from vlib.runner import Case
    n = 150 if tier == 'quick' else 500
    return [Case(history(rng, tier), 'gen:forest') for _ in range(n)]


def nontrivial(case, tags):
    cut = any(t.startswith(('sr_findsec.sec.', 'sr_findsrc.src.')) and ('.cut.' in t or '.exact.' in t) and t.endswith('.hit') for t in tags)
    back = any(t.startswith(('sr_referring.', 'sr_parentsrc.child')) and (t.endswith('.hit') or t.endswith('child')) for t in tags)
    return cut and back


def signature(f):
    return '%s:%s:%s' % (f.kind, '.'.join(f.tag().split('.')[:2]), f.rule())


LEVEL_TEXT = ('Lean 4 theorems about a statement-by-statement model of the search code, for every forest, every filter and every depth limit: the work-list '
              'search of Section::findSections / Source::findSources (well-founded recursion on the queued subtrees) returns the level-order list of the accepted '
              'nodes at depth 1..d resp. 0..d; File::findSections / Block::findSources are the per-root concatenation and a permutation of the brute-force '
              'level listing; depth >= height (the SIZE_MAX default) returns every descendant; results carry no id twice when ids are distinct; metadata / link '
              'resolution by id search is sound and complete; referring* equal the brute-force filter of all candidates (sources: as a multiset); parentSource '
              'returns the unique source whose child has the id (uniqueness from id distinctness; the version before fix S1 is refuted by a counter-witness); inheritedProperties = own ++ unshadowed linked; findRelated = '
              'nearest accepted generation below, else nearest accepted ancestor, else accepted siblings of the nearest ancestor that has any. The model is tied '
              'to the library by differential queries on random forests, and every answer of the library is judged directly against a brute-force reading of the dump (positions from the paths, links from the accepted operations of the history).')
LEVEL_NOTE = ('Trusted: Lean kernel; the transcription of the C++ loops (validated by the differential run); the canonical dump as the description of the forest; '
              'HDF5 group iteration order as exposed by sections()/sources(); boost::regex in TypeFilter only for metacharacter-free patterns. Assumed: ids distinct '
              '(C12); section handles obtained through their parents.')
