"""C11 — after close or flush the file on disk is complete and released."""
from vlib.tok import f64, s as S, lst
from checks.storegen import World, PLAIN, NAMES
ID = 'C11'
THEOREMS = [
    'Nix.C11.decRef_ok', 'Nix.C11.closeObj_head', 'Nix.C11.closeLoop_empties', 'Nix.C11.close_releases_all', 'Nix.C11.close_idempotent',
    'Nix.C11.handle_after_close_errors', 'Nix.C11.handle_stays_dead', 'Nix.C11.step_clean', 'Nix.C11.history_crash_reopen',
    'Nix.C11.run_nonmutating', 'Nix.C11.flush_crash_reopen', 'Nix.C11.close_crash_reopen', 'Nix.C11.flushed_image_is_all_writes',
]
FLAVOUR = {'quick': 'plain', 'thorough': 'asan'}
RULE = ('crash family: a worker process (fork of the harness) runs a random entity-tree history of the store grammar (all entity kinds, links, dimensions, '
        'data, property values) with every handle it obtained still alive plus extra copies, dimension handles, data views and File copies; at EVERY op '
        'boundary of the history (one case per boundary) it dumps, then flushes or closes (with the handles alive, or after dropping them), optionally '
        'performs read-only calls, and is ended without any destructor or exit handler (SIGKILL from outside, _exit, abort); the parent process reopens the '
        'file ReadOnly and ReadWrite and compares the canonical dump with the one the worker took.  Second sessions (close, reopen ReadWrite, modify, flush, '
        'kill) included.  Unpromised variants (kill without flush, modification after the flush) only check that nothing crashes.  In-process part: close '
        'with live handles of every kind -> no HDF5 id of the process is left open (H5Fget_obj_count over all files), isOpen false on the File and on copies, '
        'every call through a stale handle throws, the file can be truncated and recreated in the same process, destroying the stale handles afterwards harms '
        'nothing.  non-trivial = a kill after a flush / close with a judged reopen, or a close with at least 8 stale-handle calls; distinct = distinct op text.')
TRUSTED = ['lean/NixModel/Session.lean: bookkeeping model (live / disk image, dirty bit, id table with reference counts, flush, close loop, crash); its flush / close '
           'DEFINE that HDF5 leaves a complete image on disk — assumed, and enumerated against the real library by the kill points of every run',
           'harness: fork / pipes / SIGKILL, canonical dump, H5Fget_obj_count(H5F_OBJ_ALL)',
           'the OS page cache: a killed process\'s completed write(2) calls reach the file; power loss is out of scope']
ASSUMPTIONS = ['kill points are op boundaries (the property quantifies over those); a kill in the middle of a flush is not covered',
               'HDF5 object ids are unique and have reference counts >= 1 while open (TableOk)']

COMPR = ['auto', 'deflate', 'none']

def history(rng, n, names):
    """a store-family history; returns (lines after the open, world)"""
    w = World(rng, names=names, uuid_names=False)
    for _ in range(n):
        before = len(w.lines)
        w.random_step()
        r = rng.random()
        arrs = w.alive('A')
        if r < 0.25 and arrs:
            a = rng.choice(arrs)
            w.emit(rng.choice(['adim %s sampled %s ~ ~ ~' % (a.slot, f64(0.5)), 'adim %s set %s' % (a.slot, lst([S('x'), S('y')])),
                               'adim %s range %s ~ ~' % (a.slot, lst([f64(1.0), f64(2.0), f64(4.0)]))]))
        elif r < 0.35 and arrs:
            a = rng.choice(arrs)
            w.emit('da_fill %s %s' % (a.slot, lst([f64(float(rng.randint(-3, 9))) for _ in range(rng.randint(1, 6))])))
        elif r < 0.45 and w.alive('P'):
            w.emit('pvalues %s []' % rng.choice(w.alive('P')).slot)
    return w

def extra_handles(w, rng):
    out = []
    for a in w.alive('A')[:3]:
        if rng.random() < 0.7: out.append('cr_hold %s copy %d' % (a.slot, rng.randint(1, 4)))
        if rng.random() < 0.5: out.append('cr_hold %s view' % a.slot)
    for e in w.alive(['B', 'S', 'T', 'M', 'G', 'O', 'D', 'P'])[:4]:
        if rng.random() < 0.5: out.append('cr_hold %s copy %d' % (e.slot, rng.randint(1, 3)))
    if rng.random() < 0.5: out.append('cr_hold $F file')
    return out

def crash_cases(rng, tier):
    from vlib.runner import Case
    cases = []
    n_hist = 25 if tier == 'quick' else 200
    for h in range(n_hist):
        n = rng.randint(5, 14) if tier == 'quick' else rng.randint(4, 24)
        w = history(rng, n, PLAIN)
        ops = list(w.lines)
        compr = rng.choice(COMPR)
        # dimension handles need an array that has dimensions at the cut; decided per cut from the prefix text
        for k in range(0, len(ops) + 1):
            pre = ops[:k]
            # (now and then the path the library is given is a symbolic link to the file)
            l = (['cr_linkpath'] if rng.random() < 0.15 else []) + ['cr_fork', 'cr_in fopen ow %s' % compr] + ['cr_in ' + o for o in pre]
            # handles of every kind are alive in the slots; add copies / views / dimension handles for what exists at this cut
            made = [o.split() for o in pre if o.startswith('mk ')]
            arrays = [m[1] for m in made if m[2] == 'A']
            dims = [o.split()[1] for o in pre if o.startswith('adim ')]
            for a in arrays[:2]:
                if rng.random() < 0.6: l.append('cr_in cr_hold %s copy %d' % (a, rng.randint(1, 4)))
                if rng.random() < 0.4: l.append('cr_in cr_hold %s view' % a)
            for a in dims[:1]:
                if rng.random() < 0.6: l.append('cr_in cr_hold %s dim 1' % a)
            if rng.random() < 0.3: l.append('cr_in cr_hold $F file')
            variant = rng.random()
            if variant < 0.12:
                # unpromised: no flush at all, or a modification after it
                l.append('cr_in dump')
                if rng.random() < 0.5:
                    l.append('cr_in fflush')
                    l.append('cr_in mk $late B $F %s %s' % (S('late-%d' % k), S('t')))
                l.append('cr_end %s' % rng.choice(['kill', 'exit']))
                l += ['cr_reopen ro', 'cr_reopen ow']
                cases.append(Case(l, 'gen:crash-unpromised'))
                continue
            act = rng.choice(['fflush', 'fflush', 'fclose', 'fdrop'])
            # flush, then overwrite existing attributes in place (same length: the file does not grow), flush again: the second
            # flush promises the overwritten values
            inplace = [m[1] for m in made if m[2] in 'BSATMGO']
            inplace = rng.choice(inplace) if (inplace and act == 'fflush' and rng.random() < 0.35) else None
            if inplace: l.append('cr_in set %s definition %s' % (inplace, S('value one')))
            l.append('cr_in dump')
            l.append('cr_in ' + act)
            if inplace:
                l += ['cr_in set %s definition %s' % (inplace, S('value TWO')), 'cr_in dump', 'cr_in fflush']
            if act == 'fflush' and rng.random() < 0.3:
                l.append('cr_in fflush')
            # read-only activity between the flush / close and the kill
            if act != 'fflush':
                if rng.random() < 0.5: l.append('cr_in fisopen')
            elif rng.random() < 0.6:
                for _ in range(rng.randint(1, 4)):
                    q = rng.random()
                    if q < 0.3: l.append('cr_in dump')
                    elif q < 0.5: l.append('cr_in count B $F')
                    elif q < 0.7 and made: l.append('cr_in idof %s' % rng.choice(made)[1])
                    elif q < 0.85: l.append('cr_in xcheck B $F')
                    else: l.append('cr_in fisopen')
            if act != 'fflush' and rng.random() < 0.3 and made:
                # after a close: modifying calls through stale handles cannot reach the file
                l.append('cr_in cr_use set %s definition %s' % (rng.choice(made)[1], S('too late')))
            if act == 'fflush' and variant > 0.85:
                # a second session before the kill: close, reopen, modify, flush
                l += ['cr_in fdrop', 'cr_in fopen rw %s' % rng.choice(COMPR), 'cr_in mk $second B $F %s %s' % (S('second-%d' % k), S('t')),
                      'cr_in set $second definition %s' % S('d'), 'cr_in dump', 'cr_in fflush']
            l.append('cr_end %s' % rng.choice(['kill', 'kill', 'exit', 'abort']))
            l += ['cr_reopen ro', 'cr_reopen rw', 'cr_reopen ro']
            cases.append(Case(l, 'gen:crash'))
    return cases

def stale_calls(w, rng):
    out = []
    for e in w.alive():
        out.append('cr_use idof %s' % e.slot)
        if e.kind != 'R' and e.kind != 'P':
            out.append('cr_use set %s definition %s' % (e.slot, S('after close')))
        out.append('cr_use valid %s' % e.slot)
        out.append('cr_use fm_ent %s forceupdated' % e.slot)
    for b in w.alive('B'):
        out += ['cr_use count A %s' % b.slot, 'cr_use list T %s' % b.slot, 'cr_use mk $late A %s %s %s Double [2]' % (b.slot, S('late'), S('t')),
                'cr_use xcheck G %s' % b.slot, 'cr_use get $late2 A %s idx 0' % b.slot, 'cr_use has O %s name %s' % (b.slot, S('a'))]
    for a in w.alive('A'):
        out += ['cr_use dims %s' % a.slot, 'cr_use da_read1 %s' % a.slot, 'cr_use da_fill %s %s' % (a.slot, lst([f64(1.0)])),
                'cr_use adim %s set %s' % (a.slot, lst([S('x')])), 'cr_use listlink src %s' % a.slot]
    # every getter of every kind, one by one
    FIELDS = {'A': ['dtype', 'shape', 'origin', 'poly', 'label', 'unit', 'dimcount'], 'T': ['pos', 'ext', 'units'], 'M': ['units'], 'D': ['rows', 'cols']}
    for e in w.alive(['B', 'S', 'O', 'G', 'A', 'D', 'T', 'M']):
        for f in ['id', 'name', 'type', 'def', 'created', 'updated'] + FIELDS.get(e.kind, []):
            out.append('cr_use fld %s %s' % (e.slot, f))
    for p in w.alive('P'):
        out += ['cr_use pget %s' % p.slot, 'cr_use pvalues %s []' % p.slot]
    for t in w.alive(['T', 'M']):
        out += ['cr_use list R %s' % t.slot, 'cr_use listlink ref %s' % t.slot]
    for s_ in w.alive('S'):
        out += ['cr_use count P %s' % s_.slot, 'cr_use mk $late3 S %s %s %s' % (s_.slot, S('late'), S('t'))]
    out += ['cr_use mk $late4 B $F %s %s' % (S('late'), S('t')), 'cr_use count B $F', 'cr_use fflush']
    rng.shuffle(out)
    return out

def close_case(rng, tier, many=False, readonly=False, two_sessions=False):
    w = World(rng, names=PLAIN if rng.random() < 0.7 else NAMES, uuid_names=False)
    l = ['cr_h5count']
    w.open('ow')
    for _ in range(rng.randint(6, 25 if tier == 'quick' else 60)):
        w.random_step()
    b = w.pick('B') or w.mk('B', None)
    if many:
        # a large population of live handles: every slot keeps its own HDF5 ids (well over a hundred at close)
        for i in range(rng.randint(40, 70)):
            w.mk(rng.choice(['A', 'T', 'G', 'O']), b, name='many%d' % i)
        for i in range(rng.randint(10, 30)):
            w.mk('S', w.pick('S') if rng.random() < 0.5 else None, name='sec%d' % i)
    for k in ('A', 'T', 'M', 'G', 'O', 'D'):
        if not w.alive(k, block=b.slot): w.mk(k, b)
    if not w.alive('S'): w.mk('S', None)
    if not w.alive('P'): w.mk('P', w.pick('S'))
    t = w.pick(['T', 'M'])
    if t and not w.alive('R'): w.mk('R', t, name='x')
    a = w.pick('A')
    w.emit('adim %s sampled %s ~ ~ ~' % (a.slot, f64(0.5)))
    if readonly:
        # the session that gets closed is a read-only one in which mutating calls were attempted (and refused)
        w.emit('fdrop'); w.emit('fopen ro auto'); w.rebind()
        for e in [x for x in w.alive() if x.kind in ('B', 'A', 'T', 'S', 'O', 'G')][:rng.randint(2, 8)]:
            w.emit('set %s definition %s' % (e.slot, S('refused in a read-only session')))
            if rng.random() < 0.4: w.emit('set %s type %s' % (e.slot, S('other')))
        blk = w.pick('B')
        if blk: w.emit('mk $ro1 A %s %s %s Double [2]' % (blk.slot, S('not-in-ro'), S('t')))
    held = []
    w.emit('cr_hold %s dim 1' % a.slot); held.append(('dim', 0))
    w.emit('cr_hold %s view' % a.slot); held.append(('view', 0))
    w.emit('cr_hold %s copy %d' % (a.slot, rng.randint(1, 5))); held.append(('copy', 0))
    for e in w.alive()[:rng.randint(0, 6)]:
        w.emit('cr_hold %s copy %d' % (e.slot, rng.randint(1, 3)))
    w.emit('cr_hold $F file'); held.append(('file', 0))
    if rng.random() < 0.5: w.emit('fflush')
    if two_sessions:
        # the same path is opened a second time in this process; the later session, whose handles are alive, is closed first:
        # once every session is closed no id may be left and the file must be free
        # (closing one session force-closes every object id of the FILE, the other session's too: nothing is asked of the
        # first session between the two closes)
        w.emit('cr_hold $F file2')
        w.emit('cr_h5count')
        w.emit('dump')
        w.emit('cr_held file2 0 close')
    else:
        w.emit('cr_h5count')
        w.emit('dump')
    w.emit('cr_close')
    w.emit('cr_h5count')
    calls = stale_calls(w, rng)
    if tier == 'quick': calls = calls[:60]
    calls += ['cr_held dim 0 read', 'cr_held dim 0 index', 'cr_held view 0 read', 'cr_held view 0 write', 'cr_held view 0 extent', 'cr_held copy 0 id',
              'cr_held file 0 isopen', 'cr_held file 0 blocks', 'cr_held file 0 id', 'cr_held file 0 mk', 'cr_held file 0 flush', 'cr_held file 0 close']
    rng.shuffle(calls)
    half = len(calls) // 2
    w.lines += calls[:half]
    # the released file can be truncated and recreated in this very process; the stale handles still do not reach it
    w.emit('cr_reopen ow')
    w.emit('cr_h5count')
    w.lines += calls[half:]
    # destroying the stale handles now must harm nothing
    for e in w.alive()[:10]:
        w.emit('drop %s' % e.slot)
    w.emit('cr_h5count')
    w.emit('cr_reopen ro')
    w.emit('cr_reopen rw')
    w.emit('cr_h5count')
    return l + w.lines

def cases(tier, seed, rng):
    from vlib.runner import Case
    out = crash_cases(rng, tier)
    for _ in range(10 if tier == 'quick' else 150):
        out.append(Case(close_case(rng, tier), 'gen:close'))
    for _ in range(2 if tier == 'quick' else 25):
        out.append(Case(close_case(rng, tier, many=True), 'gen:close-many-handles'))
    for _ in range(3 if tier == 'quick' else 30):
        out.append(Case(close_case(rng, tier, readonly=True), 'gen:close-readonly-session'))
    for _ in range(3 if tier == 'quick' else 30):
        out.append(Case(close_case(rng, tier, two_sessions=True, readonly=rng.random() < 0.3), 'gen:close-two-sessions'))
    return out

def nontrivial(case, tags):
    judged = any(t.startswith('reopen.') and ('after_flush' in t or 'after_close' in t) for t in tags)
    stale = sum(1 for t in tags if t.startswith('use.stale.') or t.startswith('held.stale.'))
    return judged or stale >= 8

def signature(f):
    parts = f.tag().split('.')
    return '%s:%s:%s' % (f.kind, '.'.join(parts[:3]), f.rule())

LEVEL_TEXT = ('Lean 4 theorems about a bookkeeping model of a session (live state, last complete disk image, dirty bit, table of open HDF5 object ids with '
              'reference counts, flush, the force-close loop of FileHDF5::close, reference-counted handles, crash), for every store type, every history and '
              'every population of live handles: close empties the id table and releases the file id whatever handles are alive (induction over the table; '
              'the inner loop over the reference count is what makes it true), every handle fails afterwards and stays failing, and at every op boundary at '
              'which nothing was modified since the last flush / close a crash leaves exactly the fold of all writes before it.  PARTIAL for the property: that '
              'H5Fflush / H5Fclose leave a self-consistent file on disk is an assumption of the model, not a theorem; it is checked by enumeration — a worker '
              'process is killed (SIGKILL / _exit / abort) at every op boundary of generated histories after a flush or close and the file is reopened '
              'ReadOnly and ReadWrite by another process and compared with the dump the worker took.')
LEVEL_NOTE = ('The theorems cover the bookkeeping (who holds which id, when the disk image is current), not HDF5\'s on-disk format nor the OS.  Trusted: Lean kernel, '
              'the model (Session.lean), harness fork/kill machinery and dump, HDF5 and the page cache for the durability of completed writes.  Kill points are op '
              'boundaries; a kill inside H5Fflush, power loss and other processes writing concurrently are out of scope.')
