"""C01 — array data round trip: what is written is what is read."""
from vlib.tok import f64, lst
from checks import arraygen as A
ID = 'C01'
LEAN_MODULES = ['NixModel.Props.C01', 'NixModel.Props.C01Whole', 'NixModel.Props.C01Types', 'NixModel.Gen.Types']
TECHNIQUE = 'Lean 4 proof over a hand-written array model + tables translated from the source on every run (element-type mapping of the HDF5 backend) + differential correspondence (trace validation) with the built library'
THEOREMS = ['Nix.C01.append_refused_no_trace', 'Nix.C01.setExtent_grow_back', 'Nix.Types.stored_type_reads_back', 'Nix.Types.memory_type_matches_file_type', 'Nix.Types.file_types_distinct', 'Nix.Types.storable_types', 'Nix.C01.setWhole_refused_no_trace', 'Nix.C01.setWhole_reads_back', 'Nix.C01.inBox_inShape_of_within', 'Nix.C01.resolve_of_boxOk', 'Nix.C01.boxWithin_lengths', 'Nix.C01.resolve_short_refused', 'Nix.C01.get_write', 'Nix.C01.read_write_disjoint', 'Nix.C01.write_shape', 'Nix.C01.write_outside_rejected', 'Nix.C01.inBox_zero', 'Nix.C01.get_write_zero', 'Nix.C01.get_setExtent', 'Nix.C01.read_after_grow_zero', 'Nix.C01.shrink_then_grow_zero', 'Nix.C01.applyOp_normal', 'Nix.C01.step_lastValue', 'Nix.C01.history_last_writer', 'Nix.C01.history_from_creation', 'Nix.C01.read_depends_on_store_only']
RULE = ('random histories per array: 12 element types x rank 1-4 x shapes with extents 1..6 x array compression {none, deflate} x file compression '
        '{auto, deflate}; 6-40 ops from {write hyperslab, read hyperslab (also beyond the extent), read whole, append along an axis, set extent '
        '(grow / shrink / same element count different shape), read as another numeric type, set / unset polynomial and origin + calibrated reads, '
        'close + reopen ro/rw}; values are type extremes, NaN payloads, -0.0, empty / long / UTF-8 strings. The Lean array model is the oracle; '
        'non-trivial = at least one successful read after a successful write; distinct = distinct op text.')
TRUSTED = ['lean/NixModel/NDArray.lean: idealised n-d array (hyperslab I/O, extent change with zero fill, append) — HDF5 storage, filters and type conversion are modelled, not verified',
           'H5Tconvert between numeric types for exactly representable values; double -> integer truncation']
ASSUMPTIONS = ['reads as another type only for values exactly representable in both types', 'calibrated reads requested as Double, Float, Int32 or Int64']

def history(rng, tier):
    dt = rng.choice(A.DTYPES)
    shape = A.shape_for(rng)
    rank = len(shape)
    lines = ['da_new %s %s %s %s' % (dt, A.idx(shape), rng.choice(['none', 'deflate', 'auto']), rng.choice(['auto', 'deflate', 'none']))]
    numeric = dt != 'String'
    small = rng.random() < 0.4 and numeric      # a history with small values: allows type-changing reads and calibration
    val = (lambda: A.small_value(dt, rng)) if small else (lambda: A.value(dt, rng))
    calibrated = False
    readonly = False
    n = rng.randint(6, 18 if tier == 'quick' else 40)
    for _ in range(n):
        r = rng.random()
        if r < 0.3 and not readonly:
            off, cnt = A.sub_box(shape, rng, may_exceed=0.05)
            vals = [val() for _ in range(A.prod(cnt))]
            lines.append('%s %s %s %s %s' % ('da_wrd' if rng.random() < 0.1 else 'da_wr', dt, A.idx(cnt), A.idx(off), lst(vals)))
        elif r < 0.55:
            off, cnt = A.sub_box(shape, rng, may_exceed=0.07)
            rdt = dt
            if small and rng.random() < 0.4:
                rdt = rng.choice(['Double', 'Float', 'Int32', 'Int64', 'Int16', 'UInt64'] if dt != 'Bool' else ['Int32', 'UInt8', 'Double'])
                if rdt.startswith('U') and not (dt.startswith('U') or dt == 'Bool'):
                    rdt = 'Int64'
            if calibrated and rdt not in ('Double', 'Float', 'Int32', 'Int64'):
                rdt = 'Double'
            lines.append('%s %s %s %s %d' % ('da_rdd' if rng.random() < 0.15 else 'da_rd', rdt, A.idx(cnt), A.idx(off), A.prod(cnt)))
        elif r < 0.62:
            lines.append('da_rd %s %s %s %d' % (dt if not calibrated else 'Double', A.idx(shape), A.idx([0] * rank), A.prod(shape)))
            # an offset without a count: the one element there (raw interface)
            o1 = [rng.randrange(0, max(1, n_)) for n_ in shape]
            lines.append('da_rd %s [] %s 1' % (dt if not calibrated else 'Double', A.idx(o1)))
            if not readonly and rng.random() < 0.5:
                lines.append('da_wr %s [] %s %s' % (dt, A.idx(o1), lst([val()])))
                lines.append('da_rd %s [] %s 1' % (dt if not calibrated else 'Double', A.idx(o1)))
            # … and the typed transfers of one value / of a vector the library sizes itself
            if not calibrated or dt in ('Double', 'Float', 'Int32', 'Int64'):
                lines.append(A.typed_op(rng, 'da', dt, shape, readonly=readonly or dt == 'String' and False, val=val if dt == 'String' else None))
        elif r < 0.72 and not readonly:
            axis = rng.randrange(rank + (1 if rng.random() < 0.05 else 0))
            cnt = list(shape)
            if axis < rank: cnt[axis] = rng.randint(1, 2)
            if rng.random() < 0.06 and rank > 1: cnt[(axis + 1) % rank] += 1
            vals = [val() for _ in range(A.prod(cnt))]
            lines.append('da_app %s %s %d %s' % (dt, A.idx(cnt), axis, lst(vals)))
            if axis < rank and cnt[:axis] + cnt[axis + 1:] == shape[:axis] + shape[axis + 1:]:
                shape[axis] += cnt[axis]
        elif r < 0.82 and not readonly:
            q = rng.random()
            if q < 0.15 and rank > 1:
                ns = list(shape); rng.shuffle(ns)          # same element count, different shape
            elif q < 0.2:
                ns = shape + [1]                            # rank change: rejected
            else:
                ns = [max(1, x + rng.choice([-2, -1, 0, 1, 2])) for x in shape]
            lines.append('da_ext %s' % A.idx(ns))
            if len(ns) == rank: shape = ns
            lines.append('da_shape')
        elif r < 0.9 and small and dt != 'Bool' and not readonly:
            q = rng.random()
            if q < 0.5:
                lines.append('da_poly %s' % lst([f64(c) for c in rng.choice([[0.0, 1.0], [1.0, 2.0], [0.5, 0.25, 2.0], [3.0]])]))
                calibrated = True
            elif q < 0.75:
                lines.append('da_origin %s' % f64(rng.choice([1.0, -2.0, 0.5, 0.1, 16777217.0, 1.0 / 3.0])))      # also origins that single precision cannot hold
                calibrated = True
            else:
                lines.append('da_poly ~'); lines.append('da_origin ~'); calibrated = False
        elif r < 0.93 and not readonly and rank <= 3 and not calibrated:
            # the whole-array write that also SETS THE EXTENT (setData(container)): accepted with a buffer of the array's own type,
            # refused — without a trace — with a buffer of another class (numbers for a string array, strings for a numeric one,
            # anything but booleans for a boolean array); and an append of the wrong class
            other = 'Double' if dt == 'String' else ('Int32' if dt == 'Bool' and rng.random() < 0.5 else 'String')
            q = rng.random()
            if q < 0.5 and (dt != 'String' or rank == 1):
                ns = [max(1, x + rng.choice([-2, -1, 0, 1, 2])) for x in shape]
                lines.append('da_whole %s %s %s' % (dt, A.idx(ns), lst([val() for _ in range(A.prod(ns))])))
                shape = ns
            elif q < 0.8 and (other != 'String' or rank == 1):
                ns = [max(1, x + rng.choice([-2, -1, 1, 2])) for x in shape]
                lines.append('da_whole %s %s %s' % (other, A.idx(ns), lst([A.small_value(other, rng) for _ in range(A.prod(ns))])))
            else:
                axis = rng.randrange(rank)
                cnt = list(shape); cnt[axis] = rng.randint(1, 2)
                lines.append('da_app %s %s %d %s' % (other, A.idx(cnt), axis, lst([A.small_value(other, rng) for _ in range(A.prod(cnt))])))
            lines.append('da_shape')
            lines.append('da_rd %s %s %s %d' % (dt, A.idx(shape), A.idx([0] * rank), A.prod(shape)))
        elif r < 0.96:
            mode = rng.choice(['rw', 'rw', 'ro'])
            lines.append('da_reopen %s' % mode)
            readonly = mode == 'ro'
            lines.append('da_shape')
    lines.append('da_rd %s %s %s %d' % (dt if not calibrated else 'Double', A.idx(shape), A.idx([0] * rank), A.prod(shape)))
    return lines

def sparse_history(rng, tier):
    """a compressed 1-d numeric array grown far beyond what was written (several storage chunks that no write ever touches):
    the never-written elements must read as zero, in the session and after reopening"""
    dt = rng.choice(['Int32', 'Double', 'Int64', 'Float', 'UInt8', 'Int16'])
    n0 = rng.randint(2, 12)
    big = rng.choice([6000, 9000, 20000])
    lines = ['da_new %s %s %s %s' % (dt, A.idx([n0]), rng.choice(['deflate', 'deflate', 'none', 'auto']), rng.choice(['auto', 'deflate']))]
    vals = [A.small_value(dt, rng) for _ in range(n0)]
    lines.append('da_wr %s %s %s %s' % (dt, A.idx([n0]), A.idx([0]), lst(vals)))
    lines.append('da_ext %s' % A.idx([big]))
    for _ in range(rng.randint(2, 4)):
        off = rng.choice([n0, big // 2, big - 16, rng.randint(n0, big - 16)])
        cnt = rng.randint(1, 12)
        lines.append('da_rd %s %s %s %d' % (dt, A.idx([cnt]), A.idx([off]), cnt))
    if rng.random() < 0.6:
        lines.append('da_reopen %s' % rng.choice(['ro', 'rw']))
        lines.append('da_rd %s %s %s %d' % (dt, A.idx([8]), A.idx([big - 100]), 8))
    lines.append('da_rd %s %s %s %d' % (dt, A.idx([n0]), A.idx([0]), n0))
    return lines

def big_initial_history(rng, tier):
    """an array CREATED large (so that the chunk guess has to cut the shape down, in one or two dimensions), written in a few places
    far apart and read back there and where nothing was written"""
    dt = rng.choice(['Int32', 'Double', 'Int64', 'Float', 'UInt8', 'Int16', 'UInt64'])
    shape = rng.choice([[20000], [40000], [9000], [150, 150], [300, 40], [7, 3000], [30, 30, 30],
                        # dimensions of extent 1 beside long ones: the halving of the chunk guess reaches them
                        [1, 4096], [8192, 1], [1, 128, 1, 128], [1, 1, 9000], [3000, 1, 2]])
    lines = ['da_new %s %s %s %s' % (dt, A.idx(shape), rng.choice(['deflate', 'none', 'auto']), rng.choice(['auto', 'deflate', 'none']))]
    spots = []
    for _ in range(rng.randint(2, 4)):
        cnt = [rng.randint(1, min(3, x)) for x in shape]
        off = [rng.choice([0, x - c, rng.randint(0, x - c)]) for x, c in zip(shape, cnt)]
        n = 1
        for c in cnt: n *= c
        lines.append('da_wr %s %s %s %s' % (dt, A.idx(cnt), A.idx(off), lst([A.small_value(dt, rng) for _ in range(n)])))
        spots.append((cnt, off, n))
    if rng.random() < 0.5: lines.append('da_reopen %s' % rng.choice(['ro', 'rw']))
    for cnt, off, n in spots:
        lines.append('da_rd %s %s %s %d' % (dt, A.idx(cnt), A.idx(off), n))
    for _ in range(2):
        cnt = [rng.randint(1, min(4, x)) for x in shape]
        off = [rng.randint(0, x - c) for x, c in zip(shape, cnt)]
        n = 1
        for c in cnt: n *= c
        lines.append('da_rd %s %s %s %d' % (dt, A.idx(cnt), A.idx(off), n))
    lines.append('da_shape')
    return lines

def cases(tier, seed, rng):
    from vlib.runner import Case
    n = 150 if tier == 'quick' else 3000
    out = [Case(history(rng, tier), 'gen:array') for _ in range(n)]
    out += [Case(sparse_history(rng, tier), 'gen:sparse-growth') for _ in range(6 if tier == 'quick' else 100)]
    out += [Case(big_initial_history(rng, tier), 'gen:big-initial') for _ in range(12 if tier == 'quick' else 150)]
    return out

def nontrivial(case, tags):
    return any(t.startswith('da_wr.ok') or t.startswith('da_app.ok') for t in tags) and any(t.startswith('da_rd.raw') or t.startswith('da_rd.cal') for t in tags)
def signature(f):
    return '%s:%s:%s' % (f.kind, f.tag().split('.')[0], f.rule())

LEVEL_TEXT = ('Lean 4 theorems about the n-d array model for every element type, rank, shape and history: read-after-write inside / outside the box, extent changes (surviving elements keep their value, exposed ones read as zero, shrink-then-grow reads zero), and by induction over the history: every element holds the value of the last write covering it since its index was last outside the extent. The model is tied to DataArray I/O (all 12 element types, compression settings, appends, extent changes, calibration, type-changing reads, reopen) by differential histories; the history rule itself (a backwards scan that never builds an array) is evaluated on every read the library answers.')
LEVEL_NOTE = ('Trusted: Lean kernel; the idealised array model of HDF5 datasets (hyperslab I/O, H5Dset_extent zero fill) validated each run; H5Tconvert for exactly representable values and double->integer truncation; polynomial evaluation compared bit-exactly with Lean Float (same operation order); harness.')
