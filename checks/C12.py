"""C12 — ids are well-formed UUIDs, never change and never collide."""
from vlib.tok import f64, s as S, lst
from checks.storegen import World, PLAIN, NAMES
ID = 'C12'
TECHNIQUE = 'Lean 4 proof over a hand-written model + a table translated from the source on every run (guards of the create functions) + differential correspondence (trace validation, concurrent processes and threads) with the built library'
THEOREMS = ['Nix.Guards.create_guards_are_in_place', 'Nix.Guards.type_checked_with_the_name', 'Nix.Guards.modelled_creates_are_tabulated', 'Nix.St.setLinks_idsKept', 
    'Nix.C12.uuidChars_wellformed', 'Nix.C12.uuidText_wellformed', 'Nix.C12.byte_inj', 'Nix.C12.uuidChars_injective', 'Nix.C12.uuidText_injective', 'Nix.C12.uuidText_eq_iff',
    'Nix.C12.step_inv', 'Nix.C12.ids_distinct_invariant', 'Nix.C12.id_immutable', 'Nix.C12.id_immutable_history',
    'Nix.C12.same_seed_same_ids', 'Nix.C12.time_seeded_not_fresh',
    # the store-model part: no entry point re-identifies anything, and the ids in the file stay pairwise distinct
    'Nix.St.entity_id_immutable', 'Nix.St.history_ids_kept', 'Nix.St.apply_idStep', 'Nix.St.apply_idUniq', 'Nix.St.run_idUniq', 'Nix.St.ids_pairwise_distinct',
]
LEAN_MODULES = ['NixModel.Props.C08Guards', 'NixModel.Gen.CreateGuards', 'NixModel.Props.C08Bulk', 'NixModel.Props.C12', 'NixModel.Props.C12Ids', 'NixModel.Proofs.IdUniq', 'NixModel.Props.C03Ids']
FLAVOUR = {'quick': 'plain', 'thorough': 'asan'}
RULE = ('(1) batches of ids straight from util::createId(): format (8-4-4-4-12 lower-case hex, version nibble 4, variant 10xx), membership in the image of the '
        'model\'s uuidText, pairwise distinctness over the case.  (2) random entity-tree histories of the store grammar with a snapshot of every entity\'s '
        '(kind, parent, name, creation time) -> id after EVERY op: creations on existing names (every kind — the re-identification path), setters, links, '
        'deletions, forceId, close + reopen ReadWrite / ReadOnly in between; an entity present in two consecutive snapshots must keep its id, an id seen '
        'before must still denote the same entity, all ids distinct and well-formed.  (3) process races: K = 8 freshly started processes (the harness binary '
        're-executed) and K = 4..8 forked copies of a process that has already used the generator, released by a barrier 0.25 s into one wall-clock second '
        '(each child records the second before and after its first id; the answer says whether all fell into that second), each creating 30-200 entities of '
        'every kind in a file of its own and then, in turn under a lock, a block and two arrays in one shared file: all ids reported must be distinct, and '
        'the shared file must hold distinct ids.  non-trivial = a race whose children all seeded in the same second, or a history with at least 10 snapshots; '
        'distinct = distinct op text.')
TRUSTED = ['lean/NixModel/Ids.lean: text form of a UUID as boost prints it with the version / variant stamps; id source as a parameter',
           'after the fix: distinctness between processes rests on std::random_device (OS entropy) — an assumption (FreshIds), sampled by the races, not a theorem',
           'boost::uuids (to_string, basic_random_generator), boost::mt19937']
ASSUMPTIONS = ['FreshIds: the source never hands out the same id twice (discharged for the real generator only statistically)',
               'a race is informative only if all children seeded within the same second; the harness reports it and places the barrier 0.25 s into a second']

def tree_history(rng, tier):
    w = World(rng, names=PLAIN if rng.random() < 0.6 else NAMES)
    w.keep_created = True      # the id rules tell entities apart by (kind, parent, name, creation time)
    w.open('ow')
    w.emit('id_all')
    n = rng.randint(12, 30 if tier == 'quick' else 80)
    for _ in range(n):
        q = rng.random()
        if q < 0.25:
            # a creation on a name that exists already (refused — and must not re-identify what is there)
            e = w.pick(['B', 'S', 'O', 'A', 'D', 'T', 'M', 'G', 'P'])
            if e:
                parent = next((x for x in w.ents if x.slot == e.parent), None)
                if e.parent == '$F' or (parent and parent.alive):
                    w.mk(e.kind, parent, name=e.name, allow_dup=True)
            else:
                w.random_step()
        elif q < 0.30:
            w.emit('id_forceid')
        elif q < 0.36:
            # a feature like one the tag has already (same array, same link type): a NEW feature, the old one keeps its id
            t = w.pick(['T', 'M'])
            if t:
                fs = [f for f in w.alive('R', parent=t.slot) if getattr(f, 'data', None) is not None and f.data.alive]
                a = rng.choice(fs).data if fs and rng.random() < 0.7 else w.pick('A', block=t.block)
                if a:
                    lt = rng.choice(['tagged', 'untagged', 'indexed'])
                    for _ in range(rng.choice([1, 2])):
                        w.emit('mk %s R %s %s %s %s %s' % (w.fresh(), t.slot, S('x'), S('x'), a.slot, lt))
                        w.emit('id_all')
        elif q < 0.38:
            mode = rng.choice(['rw', 'rw', 'ro'])
            w.emit('fdrop'); w.emit('fopen %s auto' % mode)
            w.emit('id_all')
            if mode == 'ro':
                w.emit('fdrop'); w.emit('fopen rw auto')
            w.rebind()
        else:
            w.random_step()
        w.emit('id_all')
    w.emit('dump')
    return w.lines

def cases(tier, seed, rng):
    from vlib.runner import Case
    out = []
    out.append(Case(['id_new_loc 3', 'id_new_loc 50', 'id_new 2'], 'gen:new-under-a-grouping-locale'))
    out.append(Case(['id_new 1', 'id_new 2', 'id_new 40', 'id_new %d' % (600 if tier == 'quick' else 20000), 'id_new 3'], 'gen:new'))
    for _ in range(12 if tier == 'quick' else 300):
        out.append(Case(tree_history(rng, tier), 'gen:tree'))
    rounds = 2 if tier == 'quick' else 25
    for r in range(rounds):
        out.append(Case(['id_new 2', 'id_threads %d %d' % (rng.choice([2, 4, 8]), rng.choice([2000, 5000])), 'id_new 2'], 'gen:race-threads'))
        out.append(Case(['id_race exec 8 %d' % rng.choice([30, 100, 200])], 'gen:race-exec'))
        # freshly started processes that cannot open a file while they draw their first id
        out.append(Case(['id_race execs %d %d' % (rng.choice([3, 6]), rng.choice([10, 30]))], 'gen:race-exec-starved'))
        out.append(Case(['id_new 5', 'id_race fork %d %d' % (rng.choice([4, 8]), rng.choice([30, 100])), 'id_new 5'], 'gen:race-fork'))
        # a pre-fork worker pool: a freshly started process forks its workers BEFORE it has created an id itself
        out.append(Case(['id_race pool %d %d' % (rng.choice([3, 6]), rng.choice([30, 100]))], 'gen:race-pool'))
        # a chain of forks: every generation creates an id, forks the next one, and then all of them race
        out.append(Case(['id_new 2', 'id_race tree %d %d' % (rng.choice([3, 4]), rng.choice([30, 60]))], 'gen:race-tree'))
    return out

def nontrivial(case, tags):
    return any(t.startswith('race.') and t.endswith('same_second') for t in tags) or sum(1 for t in tags if t.startswith('all.')) >= 10 \
        or any(t.startswith('new.many') for t in tags)

def signature(f):
    parts = f.tag().split('.')
    return '%s:%s:%s' % (f.kind, '.'.join(parts[:2]), f.rule())

LEVEL_TEXT = ('Lean 4 theorems: for every 128-bit draw the id text is a well-formed version-4 UUID (8-4-4-4-12 lower-case hex, version and variant stamps as boost '
              'sets them); the text form is injective on 16-byte values (two draws give the same id exactly when they agree on the 122 free bits); given a source '
              'that never repeats itself the file id and all entity ids stay pairwise distinct over every history of creations, deletions, modifications, '
              'reopen cycles and forceId; no operation but forceId changes an existing id (single step for every state, and over whole histories); and the '
              'negative result that a generator is a function of its seed, so a clock-seeded generator is not a fresh source for processes started in the same '
              'second.  PARTIAL for the property: that the real generator is a fresh source across processes cannot be proved (it rests on OS entropy after the '
              'fix); it is sampled by races of freshly started and forked processes inside one wall-clock second.')
LEVEL_NOTE = ('Format, injectivity, immutability and distinctness-given-freshness are theorems about the model; the tie compares the implementation\'s ids with the '
              'model\'s text form and watches every entity\'s id after every op.  Distinctness across processes is statistical: 2^122 values per id, seeds of 256 '
              'bits from std::random_device; the schedules explored are K <= 8 processes released inside one second.')
