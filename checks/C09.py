"""C09 — open modes: ReadOnly never writes, ReadWrite preserves, Overwrite empties; defective files are refused."""
from vlib.tok import f64, s as S, lst
from checks.storegen import World, NAMES, PLAIN, BAD_NAMES
ID = 'C09'
LEAN_MODULES = ['NixModel.Props.C09', 'NixModel.Props.C09Catches', 'NixModel.Gen.Catches']
TECHNIQUE = 'Lean 4 proof over a hand-written model of the open modes + a table translated from the source on every run (every exception handler: none swallows) + differential correspondence (trace validation, raw bytes of the file) with the built library'
THEOREMS = ['Nix.Catches.no_handler_swallows', 'Nix.Catches.one_query_handler', 
    'Nix.C09.ro_missing_refused', 'Nix.C09.ro_missing_refused_rel', 'Nix.C09.ro_open_never_writes', 'Nix.C09.ro_open_exposes',
    'Nix.C09.headerDefect_iff_not_ok', 'Nix.C09.gate_passes_iff', 'Nix.C09.bad_header_refused', 'Nix.C09.plain_hdf5_refused',
    'Nix.C09.non_hdf5_refused', 'Nix.C09.empty_file_refused', 'Nix.C09.open_accepted_iff',
    'Nix.C09.force_skips_only_the_gate', 'Nix.C09.force_irrelevant_without_gate', 'Nix.C09.force_ro_plain_still_refused',
    'Nix.C09.overwrite_empty', 'Nix.C09.freshRoot_headerOk', 'Nix.C09.rw_missing_creates',
    'Nix.C09.rw_preserves', 'Nix.C09.rw_open_of_complete_unchanged',
    'Nix.C09.ro_never_writes', 'Nix.C09.ro_mutators_fail', 'Nix.C09.ro_answer_agrees',
    'Nix.C09.createEntity_ro_refused', 'Nix.C09.deleteEntity_ro', 'Nix.C09.force_calls_ro_refused',
]
FLAVOUR = {'quick': 'plain', 'thorough': 'asan'}
RULE = ('files produced by random entity-tree histories of the store grammar plus a fixture block with every kind of entity and link; closed, then '
        'reopened ReadOnly (both compression defaults, with and without Force): every mutating entry point the harness can reach (create / delete of '
        'every kind, every link / unlink / single-link setter, every attribute setter, dimensions, extents, data, property values, data-frame cells, '
        'forceId / forceUpdatedAt / forceCreatedAt on the file and on every entity kind) is attempted and must throw; the bytes of the file (hash) and '
        'the canonical dump are compared before the session, during it and after it; then ReadWrite (content must be the one before the close; the same '
        'calls now succeed), then Overwrite (empty valid file, new id).  Separate stream: nothing at the path, a directory, an empty file, non-HDF5 '
        'bytes, a truncated file, a plain HDF5 file, and header defects planted with raw HDF5 (format / version / id missing, wrong, of the wrong storage '
        'class, version of length 0-4, root groups or time stamps removed) x {ReadOnly, ReadWrite, Overwrite} x Force.  The Lean model of File::open is '
        'replayed on every open (DIFF).  non-trivial = a case with at least 10 refused mutators in a ReadOnly session or a judged open of a planted '
        'defect; distinct = distinct op text.')
TRUSTED = ['lean/NixModel/OpenMode.lean: model of File::open / FileHDF5::FileHDF5 / checkHeader and of entry points as programs over HDF5 calls; tied by the '
           'correspondence run on every generated open',
           'that every nix entry point is such a program (no catch around a write, no branch on the file mode): by reading, exercised by the tie over every '
           'entry point the harness reaches',
           'that H5F_ACC_RDONLY prevents writes is HDF5/OS; the byte hash observes it',
           'harness dump and byte hash (FNV-1a 64)']
ASSUMPTIONS = ['paths the process may not read are not distinguished from missing ones (the harness runs with full access)',
               'a zero-byte file opened with H5F_ACC_RDWR is initialised by HDF5 (observed; modelled)']

MUTATORS = {'mk', 'del', 'link', 'setlinks', 'unlink', 'single', 'set', 'adim', 'sdim', 'ddims', 'da_setext', 'da_fill', 'da_fills', 'da_append', 'da_appends', 'pvalues', 'pset', 'mkpv'}
COMPR = ['auto', 'auto', 'deflate', 'none']

class MWorld(World):
    """the store generator, with session control and mutators routed through the modes family"""
    flag = 'any'
    def emit(self, l):
        op = l.split(' ', 1)[0]
        if op == 'fopen':
            p = l.split()
            l = 'fm_open %s %s 0' % (p[1], p[2])
        elif op == 'fdrop':
            l = 'fm_close'
        elif op in MUTATORS or op in ('fm_file', 'fm_ent'):
            l = 'fm_try %s %s' % (self.flag, l)
        self.lines.append(l)

def fixture(w):
    """a block with one of everything and known links; returns the named entities"""
    e = {}
    e['b'] = w.mk('B', None, name='fx', typ='t')
    b = e['b']
    def arr(key, name, dt, shape):
        slot = w.fresh()
        w.emit('mk %s A %s %s %s %s %s' % (slot, b.slot, S(name), S('t'), dt, lst([str(x) for x in shape])))
        from checks.storegen import Ent
        x = Ent(slot, 'A', b.slot, name, b.slot); w.ents.append(x); e[key] = x
    arr('a1', 'fa1', 'Double', [3]); arr('a2', 'fa2', 'Double', [2, 2]); arr('a3', 'fa3', 'Double', [3]); arr('a4', 'fa4', 'Int32', [4])
    arr('a5', 'fa5', 'Double', [3])
    from checks.storegen import Ent
    for key, name in [('d', 'fd'), ('d2', 'fd2')]:
        slot = w.fresh()
        w.emit('mk %s D %s %s %s %s' % (slot, b.slot, S(name), S('t'), lst(['%s:%s:Double' % (S('c0'), S('mV')), '%s:%s:String' % (S('c1'), S(''))])))
        x = Ent(slot, 'D', b.slot, name, b.slot); w.ents.append(x); e[key] = x
    for key, kind, name in [('t', 'T', 'ft'), ('t2', 'T', 'ft2'), ('g', 'G', 'fg'), ('o', 'O', 'fo')]:
        e[key] = w.mk(kind, b, name=name, typ='t')
    e['m'] = w.mk('M', b, name='fm', typ='t', extra=e['a1'])
    e['m2'] = w.mk('M', b, name='fm2', typ='t', extra=e['a1'])
    e['o2'] = w.mk('O', e['o'], name='fo2', typ='t')
    e['s'] = w.mk('S', None, name='fs', typ='t')
    e['s2'] = w.mk('S', e['s'], name='fs2', typ='t')
    slot = w.fresh()
    w.emit('mk %s P %s %s %s Double' % (slot, e['s'].slot, S('fp'), S('x')))
    e['p'] = Ent(slot, 'P', e['s'].slot, 'fp', None); w.ents.append(e['p'])
    e['r'] = w.mk('R', e['t'], name='x', typ='x', extra=e['a1'])
    e['r2'] = w.mk('R', e['m'], name='x', typ='x', extra=e['a1'])
    for l in ['link ref %s handle %s' % (e['t'].slot, e['a2'].slot), 'link ref %s handle %s' % (e['m'].slot, e['a2'].slot),
              'link src %s handle %s' % (e['a1'].slot, e['o'].slot), 'link src %s handle %s' % (e['t'].slot, e['o'].slot),
              'link src %s handle %s' % (e['m'].slot, e['o'].slot), 'link src %s handle %s' % (e['g'].slot, e['o'].slot),
              'link src %s handle %s' % (e['d'].slot, e['o'].slot),
              'link mA %s handle %s' % (e['g'].slot, e['a1'].slot), 'link mD %s handle %s' % (e['g'].slot, e['d'].slot),
              'link mT %s handle %s' % (e['g'].slot, e['t'].slot), 'link mM %s handle %s' % (e['g'].slot, e['m'].slot),
              'single metadata %s handle %s' % (b.slot, e['s'].slot), 'single metadata %s handle %s' % (e['a1'].slot, e['s'].slot),
              'single seclink %s handle %s' % (e['s2'].slot, e['s'].slot), 'single extents %s handle %s' % (e['m'].slot, e['a3'].slot),
              'adim %s sampled %s %s %s %s' % (e['a1'].slot, f64(0.5), S('time'), S('ms'), f64(1.5)),
              'set %s label %s' % (e['a1'].slot, S('lbl')), 'set %s unit %s' % (e['a1'].slot, S('mV')),
              'set %s units %s' % (e['t'].slot, lst([S('mV')])), 'set %s extent %s' % (e['t'].slot, lst([f64(1.0)])),
              'adim %s range %s %s %s' % (e['a2'].slot, lst([f64(1.0), f64(2.0)]), S('axis'), S('s')), 'adim %s set %s' % (e['a2'].slot, lst([S('p'), S('q')])),
              'pvalues %s %s' % (e['p'].slot, lst(['Double:' + f64(1.0)])),
              'da_fill %s %s' % (e['a1'].slot, lst([f64(1.0), f64(2.0), f64(3.0)])), 'fm_ent %s rows 2' % e['d'].slot]:
        w.emit(l)
    return e

def mutators(w, e, rng, tag):
    """calls that change the file in a writable session, in an order in which they all succeed there (deletions last, children first)"""
    b, s, t, m, g, o = e['b'], e['s'], e['t'], e['m'], e['g'], e['o']
    n = [0]
    def fresh():
        n[0] += 1
        return S('%s%d' % (tag, n[0]))
    T = S('t')
    out = []
    # creation in every container
    out += ['mk $n1 B $F %s %s' % (fresh(), T), 'mk $n2 S $F %s %s' % (fresh(), T), 'mk $n3 S %s %s %s' % (s.slot, fresh(), T),
            'mk $n4 O %s %s %s' % (b.slot, fresh(), T), 'mk $n5 O %s %s %s' % (o.slot, fresh(), T),
            'mk $n6 A %s %s %s %s %s' % (b.slot, fresh(), T, rng.choice(['Double', 'Int32', 'String', 'UInt8']), lst([str(rng.choice([1, 2, 5]))])),
            'mk $n7 D %s %s %s %s' % (b.slot, fresh(), T, lst(['%s:%s:Double' % (S('c'), S('mV'))])),
            'mk $n8 T %s %s %s %s' % (b.slot, fresh(), T, lst([f64(1.5)])), 'mk $n9 M %s %s %s %s' % (b.slot, fresh(), T, e['a1'].slot),
            'mk $n10 G %s %s %s' % (b.slot, fresh(), T), 'mk $n11 P %s %s %s Int32' % (s.slot, fresh(), S('x')),
            'mk $n12 R %s %s %s %s untagged' % (t.slot, S('x'), S('x'), e['a2'].slot), 'mk $n13 R %s %s %s %s indexed' % (m.slot, S('x'), S('x'), e['a2'].slot),
            'mkpv $n14 %s %s %s' % (s.slot, fresh(), lst(['String:' + S('v')]))]
    # links
    out += ['link ref %s handle %s' % (t.slot, e['a1'].slot), 'link ref %s name %s' % (m.slot, S('fa3')),
            'link src %s handle %s' % (e['a2'].slot, o.slot), 'link src %s idof %s' % (e['t2'].slot, o.slot),
            'link mA %s handle %s' % (g.slot, e['a2'].slot), 'link mD %s name %s' % (g.slot, S('fd2')),
            'link mT %s handle %s' % (g.slot, e['t2'].slot), 'link mM %s handle %s' % (g.slot, e['m2'].slot)]
    for h in ['o', 'a2', 'd', 't', 'm', 'g']:
        out.append('single metadata %s handle %s' % (e[h].slot, s.slot))
    out += ['single metadata %s idof %s' % (e['d2'].slot, s.slot), 'single seclink %s idof %s' % (e['s2'].slot, s.slot),
            'single positions %s handle %s' % (e['m2'].slot, e['a3'].slot), 'single extents %s handle %s' % (e['m2'].slot, e['a1'].slot),
            'single featdata %s handle %s' % (e['r'].slot, e['a2'].slot)]
    # attribute setters on every kind
    for k in ['b', 's', 'o', 'a1', 'd', 't', 'm', 'g']:
        out.append('set %s definition %s' % (e[k].slot, fresh()))
        out.append('set %s type %s' % (e[k].slot, fresh()))
    out += ['set %s repository %s' % (s.slot, S('http://ro')), 'set %s label %s' % (e['a1'].slot, fresh()), 'set %s unit %s' % (e['a1'].slot, S('mV')),
            'set %s position %s' % (t.slot, lst([f64(2.5)])), 'set %s extent %s' % (t.slot, lst([f64(1.0)])), 'set %s units %s' % (t.slot, lst([S('ms')])),
            'set %s units %s' % (m.slot, lst([S('mV')])), 'set %s linktype indexed' % e['r'].slot,
            'set %s definition %s' % (e['p'].slot, fresh()), 'set %s unit %s' % (e['p'].slot, S('mV')),
            'pset %s uncertainty %s' % (e['p'].slot, f64(0.5)), 'pset %s definition %s' % (e['p'].slot, fresh()), 'pset %s unit %s' % (e['p'].slot, S('s')),
            'pvalues %s %s' % (e['p'].slot, lst(['Double:' + f64(2.0), 'Double:' + f64(3.0)])),
            'set %s definition ~' % e['b'].slot]
    # dimensions, extents, data
    out += ['sdim %s 1 interval %s' % (e['a1'].slot, f64(0.25)), 'sdim %s 1 offset %s' % (e['a1'].slot, f64(1.0)), 'sdim %s 1 unit %s' % (e['a1'].slot, S('ms')),
            'sdim %s 1 label %s' % (e['a1'].slot, S('time')), 'sdim %s 1 ticks %s' % (e['a2'].slot, lst([f64(3.0), f64(4.0)])),
            'sdim %s 1 unit %s' % (e['a2'].slot, S('mV')), 'sdim %s 2 labels %s' % (e['a2'].slot, lst([S('u'), S('v')])),
            'adim %s sampled %s ~ ~ ~' % (e['a3'].slot, f64(2.0)), 'adim %s range %s ~ ~' % (e['a3'].slot, lst([f64(1.0), f64(3.0)])),
            'adim %s set %s' % (e['a3'].slot, lst([S('x')])), 'adim %s alias' % e['a4'].slot, 'adim %s frame %s 0' % (e['a3'].slot, e['d'].slot),
            'da_setext %s [5]' % e['a5'].slot, 'da_fill %s %s' % (e['a5'].slot, lst([f64(9.0), f64(8.0)])),
            'fm_ent %s poly %s' % (e['a1'].slot, lst([f64(1.0), f64(2.0)])), 'fm_ent %s origin %s' % (e['a1'].slot, f64(0.5)),
            'fm_ent %s rows 3' % e['d2'].slot, 'fm_ent %s writecell 0 0 Double:%s' % (e['d'].slot, f64(4.0)),
            'fm_ent %s writecell 1 1 String:%s' % (e['d'].slot, S('cell'))]
    # every setter that RESETS an optional field to none (it removes an attribute or a link instead of writing one)
    out += ['sdim %s 1 label ~' % e['a1'].slot, 'sdim %s 1 unit ~' % e['a1'].slot, 'sdim %s 1 offset ~' % e['a1'].slot,
            'sdim %s 1 label ~' % e['a2'].slot, 'sdim %s 1 unit ~' % e['a2'].slot, 'sdim %s 2 labels ~' % e['a2'].slot,
            'set %s label ~' % e['a1'].slot, 'set %s unit ~' % e['a1'].slot, 'set %s units ~' % e['t'].slot, 'set %s extent ~' % e['t'].slot,
            'set %s definition ~' % e['a1'].slot, 'set %s definition ~' % e['s'].slot, 'set %s repository ~' % e['s'].slot,
            'pset %s unit ~' % e['p'].slot, 'pset %s uncertainty ~' % e['p'].slot, 'pset %s definition ~' % e['p'].slot,
            'single metadata %s none ~' % e['b'].slot, 'single metadata %s none ~' % e['a1'].slot, 'single extents %s none ~' % e['m'].slot,
            'single seclink %s none ~' % e['s2'].slot, 'fm_ent %s origin ~' % e['a1'].slot]
    # time stamps and the file id
    for k in ['b', 's', 'o', 'a1', 'd', 't', 'm', 'g', 'r', 'p']:
        out.append('fm_ent %s forceupdated' % e[k].slot)
        out.append('fm_ent %s forcecreated %d' % (e[k].slot, 1000000000 + rng.randrange(1000)))
    out += ['fm_file forceid', 'fm_file forceupdated', 'fm_file forcecreated %d' % (1000000000 + rng.randrange(1000))]
    rng.shuffle(out)
    # removals: links first, then entities, children before parents
    tail = ['unlink ref %s handle %s' % (t.slot, e['a2'].slot), 'unlink ref %s name %s' % (m.slot, S('fa2')),
            'unlink src %s handle %s' % (e['a1'].slot, o.slot), 'unlink src %s idof %s' % (e['d'].slot, o.slot),
            'unlink mA %s handle %s' % (g.slot, e['a1'].slot), 'unlink mD %s handle %s' % (g.slot, e['d'].slot),
            'unlink mT %s name %s' % (g.slot, S('ft')), 'unlink mM %s handle %s' % (g.slot, m.slot),
            'single metadata %s none ~' % b.slot, 'single metadata %s none ~' % e['a1'].slot, 'single seclink %s none ~' % e['s2'].slot,
            'single extents %s none ~' % m.slot, 'pvalues %s ~' % e['p'].slot, 'ddims %s' % e['a2'].slot,
            'del R %s handle %s' % (t.slot, e['r'].slot), 'del R %s idof %s' % (m.slot, e['r2'].slot),
            'del P %s name %s' % (s.slot, S('fp')), 'del S %s name %s' % (s.slot, S('fs2')),
            'del O %s handle %s' % (o.slot, e['o2'].slot), 'del G %s handle %s' % (b.slot, g.slot), 'del M %s name %s' % (b.slot, S('fm2')),
            'del M %s idof %s' % (b.slot, m.slot), 'del T %s handle %s' % (b.slot, t.slot), 'del T %s name %s' % (b.slot, S('ft2')),
            'del D %s name %s' % (b.slot, S('fd')), 'del A %s handle %s' % (b.slot, e['a1'].slot), 'del A %s name %s' % (b.slot, S('fa2')),
            'del O %s name %s' % (b.slot, S('fo')), 'del S $F handle %s' % s.slot, 'del B $F name %s' % S('fx')]
    return out + tail

def malformed(w, e, rng):
    """calls that are wrong in themselves or aim at nothing: no claim about their answer, only that nothing changes"""
    b = e['b']
    out = []
    for bad in BAD_NAMES:
        out += ['fm_try any mk $x B $F %s %s' % (S(bad), S('t')), 'fm_try any mk $x A %s %s %s Double [2]' % (b.slot, S(bad), S('t')),
                'fm_try any mk $x S $F %s %s' % (S(bad), S('t'))]
    out += ['fm_try any mk $x B $F %s %s' % (S('fx'), S('t')), 'fm_try any mk $x B $F %s %s' % (S('fresh'), S('')),
            'fm_try any mk $x A %s %s %s Opaque [2]' % (b.slot, S('fresh-opaque'), S('t')),
            'fm_try any del B $F name %s' % S('no-such-block'), 'fm_try any del A %s name %s' % (b.slot, S('no-such-array')),
            'fm_try any del A %s handle $none' % b.slot, 'fm_try any del S $F name %s' % S(''),
            'fm_try any set $none definition %s' % S('d'), 'fm_try any set %s type %s' % (b.slot, S('')),
            'fm_try any link ref %s handle $none' % e['t'].slot, 'fm_try any link ref %s id %s' % (e['t'].slot, S('no-such-array')),
            'fm_try any unlink ref %s name %s' % (e['t'].slot, S('fa4')), 'fm_try any unlink mA %s handle %s' % (e['g'].slot, e['a4'].slot),
            'fm_try any single metadata %s id %s' % (b.slot, S('00000000-0000-0000-0000-000000000000')),
            'fm_try any adim %s sampled %s ~ ~ ~' % (e['a3'].slot, f64(-1.0)), 'fm_try any da_setext %s [1,1,1]' % e['a1'].slot,
            'fm_try any sdim %s 9 label %s' % (e['a1'].slot, S('x')), 'fm_try any pvalues %s %s' % (e['p'].slot, lst(['Double:' + f64(5.0), 'String:' + S('x')])),
            'fm_try any fm_file flush', 'fm_try any fm_ent $none forceupdated', 'fm_try any mk $x M %s %s %s $none' % (b.slot, S('fresh-m'), S('t'))]
    return out

def rebind(w, e):
    """after a reopen: fetch every alive entity again (features by index), plus a handle that refers to nothing"""
    w.rebind()
    w.emit('get %s R %s idx 0' % (e['r'].slot, e['t'].slot))
    w.emit('get %s R %s idx 0' % (e['r2'].slot, e['m'].slot))
    w.emit('get $none A %s name %s' % (e['b'].slot, S('no-such-array')))

def session_case(rng, tier):
    w = MWorld(rng, names=NAMES if rng.random() < 0.4 else PLAIN)
    w.emit('fm_prep missing')
    w.emit('fm_stat')
    w.emit('fm_open %s %s 0' % (rng.choice(['ow', 'rw']), rng.choice(COMPR)))
    w.emit('fm_snap')
    for _ in range(rng.randint(5, 25 if tier == 'quick' else 50)):
        w.random_step()
    e = fixture(w)
    w.emit('fm_snap')
    w.emit(rng.choice(['fm_close', 'fm_close', 'fm_close keep']))
    w.emit('fm_stat')
    if rng.random() < 0.3:
        # from here on the path given to the library is a symbolic link to the file
        w.emit('fm_prep symlink')
        w.emit('fm_stat')
    muts = mutators(w, e, rng, 'ro')
    mal = malformed(w, e, rng)
    # ---- read-only session(s)
    for round_ in range(rng.choice([1, 1, 2])):
        w.emit('fm_open ro %s %d' % (rng.choice(COMPR), 1 if rng.random() < 0.2 else 0))
        rebind(w, e)
        w.emit('fm_snap')
        calls = [('mut', m) for m in muts] + [('raw', m) for m in mal]
        rng.shuffle(calls)
        if tier == 'quick' and round_ > 0:
            calls = calls[:40]
        k = 0
        for kind, c in calls:
            w.lines.append('fm_try mut ' + c if kind == 'mut' else c)
            k += 1
            if k % rng.choice([3, 5, 8]) == 0:
                w.emit('fm_snap')
        w.emit('fm_snap')
        w.emit(rng.choice(['fm_close', 'fm_close', 'fm_close keep']))
        w.emit('fm_stat')
    # ---- read-write: prior content intact (old time stamps are not refreshed by an open), and the same calls go through
    if rng.random() < 0.7:
        # any stamp is a stamp: the epoch itself, times before it, the far future
        w.emit('fm_prep settime %s %d' % (rng.choice(['updated_at', 'updated_at', 'created_at', 'created_at']),
                                          rng.choice([1000000000 + rng.randrange(100000)] * 3 + [0, 1, -1, -86400, 2 ** 31, 4102444800])))
        w.emit('fm_stat')
        if rng.random() < 0.5:
            w.emit('fm_open ro %s 0' % rng.choice(COMPR)); w.emit('fm_snap'); w.emit(rng.choice(['fm_close', 'fm_close', 'fm_close keep'])); w.emit('fm_stat')
    w.emit('fm_open rw %s %d' % (rng.choice(COMPR), 1 if rng.random() < 0.1 else 0))
    w.emit('fm_snap')
    rebind(w, e)
    for m in muts:
        w.lines.append('fm_try mut ' + m)
    w.emit('fm_snap')
    w.emit(rng.choice(['fm_close', 'fm_close', 'fm_close keep']))
    w.emit('fm_stat')
    w.emit('fm_open ro %s 0' % rng.choice(COMPR))
    w.emit('fm_snap')
    w.emit(rng.choice(['fm_close', 'fm_close', 'fm_close keep']))
    w.emit('fm_stat')
    # ---- overwrite
    w.emit('fm_open ow %s %d' % (rng.choice(COMPR), rng.choice([0, 0, 1])))
    w.emit('fm_snap')
    if rng.random() < 0.5:
        w.lines.append('fm_try any mk $o1 B $F %s %s' % (S('after-overwrite'), S('t')))
        w.emit('fm_snap')
    w.emit(rng.choice(['fm_close', 'fm_close', 'fm_close keep']))
    w.emit('fm_stat')
    w.emit('fm_open ro auto 0')
    w.emit('fm_snap')
    w.emit(rng.choice(['fm_close', 'fm_close', 'fm_close keep']))
    w.emit('fm_stat')
    return w.lines

def base_file(rng):
    """a small valid file, closed"""
    l = ['fm_prep missing', 'fm_open ow %s 0' % rng.choice(COMPR), 'fm_try any mk $1 B $F %s %s' % (S(rng.choice(PLAIN)), S('t'))]
    if rng.random() < 0.6:
        l.append('fm_try any mk $2 A $1 %s %s Double [3]' % (S('a'), S('t')))
        l.append('fm_try any mk $3 S $F %s %s' % (S(rng.choice(PLAIN)), S('t')))
    l += ['fm_snap', 'fm_close', 'fm_stat']
    return l

def defects(L):
    """(version, format, id) tokens of planted header defects; L = library version"""
    lib = '[%d,%d,%d]' % L
    fmt_ok = S('nix')
    out = []
    for v in ['~', '#str', '[]', '[1]', '[%d,%d]' % L[:2], '[%d,%d,%d,0]' % L, '[%d,%d,%d]' % (L[0] + 1, L[1], L[2]), '[%d,%d,%d]' % (L[0], L[1] + 1, L[2]),
              '[%d,%d,%d]' % (L[0], L[1], L[2] + 1), '[%d,%d,%d]' % (L[0], L[1], L[2])]:
        out.append((v, '=', '='))
    for f in ['~', '#int', S('NIX'), S('nix '), S(''), S('hdf5')]:
        out.append(('=', f, '='))
    for i in ['~', '#int']:
        out.append(('=', '=', i))
    # below the id gate a file needs no id
    out.append(('[%d,%d,%d]' % (L[0], L[1] - 1, 9), '=', '~'))
    out.append((lib, fmt_ok, S('not-a-uuid')))
    out.append(('~', '~', '~'))
    return out

def defect_case(rng, tier, what):
    l = base_file(rng)
    modes = ['ro', 'rw']
    if what[0] == 'hdr':
        l.append('fm_prep hdr %s %s %s' % what[1])
    else:
        l.append('fm_prep ' + ' '.join(what))
    l.append('fm_stat')
    order = [(m, f) for m in modes for f in (0, 1)]
    rng.shuffle(order)
    for m, f in order:
        l.append('fm_open %s %s %d' % (m, rng.choice(COMPR), f))
        l.append('fm_snap')
        if rng.random() < 0.5:
            l.append('fm_try mut mk $d1 B $F %s %s' % (S('in-defective-%s%d' % (m, f)), S('t')))
            l.append('fm_try mut fm_file forceupdated')
            l.append('fm_snap')
        l.append('fm_close')
        l.append('fm_stat')
    l.append('fm_open ow %s %d' % (rng.choice(COMPR), rng.choice([0, 1])))
    l += ['fm_snap', 'fm_close', 'fm_stat', 'fm_open ro auto 0', 'fm_snap', 'fm_close', 'fm_stat']
    return l

def missing_case(rng):
    l = ['fm_prep missing', 'fm_stat']
    for _ in range(rng.randint(1, 3)):
        l += ['fm_open ro %s %d' % (rng.choice(COMPR), rng.choice([0, 1])), 'fm_stat']
    m = rng.choice(['rw', 'ow'])
    l += ['fm_open %s %s %d' % (m, rng.choice(COMPR), rng.choice([0, 1])), 'fm_snap', 'fm_try any mk $1 B $F %s %s' % (S('b'), S('t')), 'fm_snap', 'fm_close', 'fm_stat',
          'fm_open ro auto 0', 'fm_snap', 'fm_close', 'fm_stat', 'fm_open rw auto 0', 'fm_snap', 'fm_close']
    return l

def lib_version():
    from checks.C10 import lib_version as lv
    return lv()

def cases(tier, seed, rng):
    from vlib.runner import Case
    out = []
    L = lib_version()
    n_sessions = 14 if tier == 'quick' else 80
    for _ in range(n_sessions):
        out.append(Case(session_case(rng, tier), 'gen:session'))
    plain = [('empty',), ('junk', '7'), ('junk', '5000'), ('dir',), ('plainh5',), ('trunc', '50'), ('trunc', '97'), ('trunc', '3'),
             ('rmgroup', 'metadata'), ('rmgroup', 'data'), ('rmattr', 'created_at'), ('rmattr', 'updated_at')]
    reps = 1 if tier == 'quick' else 4
    for _ in range(reps):
        for d in defects(L):
            out.append(Case(defect_case(rng, tier, ('hdr', d)), 'gen:defect'))
        for p in plain:
            out.append(Case(defect_case(rng, tier, p), 'gen:defect'))
        for _ in range(3):
            out.append(Case(missing_case(rng), 'gen:missing'))
    return out

def nontrivial(case, tags):
    refused = sum(1 for t in tags if t.startswith('try.ro.mut.') and not t.endswith('.ok'))
    return refused >= 10 or any(t.startswith('open.') and '.plain.' in t for t in tags)

def signature(f):
    tag = f.tag()
    # one signature per rule and call kind (not per call text)
    parts = tag.split('.')
    return '%s:%s:%s' % (f.kind, '.'.join(parts[:5]), f.rule())

LEVEL_TEXT = ('Lean 4 theorems about a statement-by-statement model of File::open and the FileHDF5 constructor, for every file state (nothing, directory, empty, '
              'non-HDF5, HDF5 with any root-group state and any content), every mode, Force flag, clock and id: ReadOnly on a missing path is refused and '
              'creates nothing; a ReadOnly open never changes the file whatever the outcome; the header gate passes exactly the headers the property asks '
              'for and the nine-item defect list is exhaustive (each defect refused, file untouched); Force bypasses only the InvalidFile verdict; Overwrite '
              'yields the empty valid file; ReadWrite preserves content and header and adds only missing root groups / time stamps; and for every entry '
              'point seen as a program over HDF5 calls: on a read-only file it never changes the store, and if it would change a writable store it throws. '
              'The model is tied to the library by replaying every generated open on it and by attempting every mutating entry point the harness reaches '
              'in read-only sessions with byte-hash and dump comparison.')
LEVEL_NOTE = ('Trusted: Lean kernel; the hand-written model (OpenMode.lean) and the claim that nix entry points are catch-free programs over HDF5 calls (re-established on every run from the '
              'list of exception handlers the translator gen/extract_catches.py takes out of the sources: no_handler_swallows; and by the tie); HDF5 honouring H5F_ACC_RDONLY (observed through the byte hash); harness, generators, dump. '
              'Entity-level entry points are covered by the generic program theorem plus the tie; only the File-level ones (createBlock/Section, '
              'deleteBlock/Section, forceId, force*At) are modelled concretely.')
