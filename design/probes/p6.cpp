#include <nix.hpp>
#include <nix/util/dataAccess.hpp>
#include <nix/valid/validate.hpp>
#include <iostream>
#include <cmath>
using namespace nix;
int main() {
    File f = File::open("/tmp/probe/p6.h5", FileMode::Overwrite);
    Block b = f.createBlock("b", "t");
    DataArray da = b.createDataArray("a", "t", DataType::Double, NDSize({2000}));
    da.appendSampledDimension(1.0, "time", "us");
    Tag t1 = b.createTag("t1", "t", {500.0}); t1.units({"us"}); t1.extent({10.0}); t1.addReference(da);
    Tag t2 = b.createTag("t2", "t", {0.5});   t2.units({"ms"}); t2.extent({0.01}); t2.addReference(da);
    NDSize o, c;
    util::getOffsetAndCount(t1, da, o, c, RangeMatch::Inclusive); std::cout << "us tag: " << o << c;
    util::getOffsetAndCount(t2, da, o, c, RangeMatch::Inclusive); std::cout << "ms tag: " << o << c;
    // set dimension eps behaviour
    DataArray ds = b.createDataArray("s", "t", DataType::Double, NDSize({10}));
    SetDimension sd = ds.appendSetDimension();
    double p = std::nextafter(1.0, 0.0);
    auto g = sd.indexOf(p, PositionMatch::Greater);
    auto l = sd.indexOf(5e-324, PositionMatch::Less);
    std::cout << "set Greater(prev(1.0)) = " << (g ? (long)*g : -1) << " (spec 1); Less(denorm_min) = " << (l ? (long)*l : -1) << " (spec 0)\n";
    // validator: unit mismatch in dim 1, ok in dim 2
    DataArray d2 = b.createDataArray("d2", "t", DataType::Double, NDSize({10, 10}));
    d2.appendSampledDimension(1.0, "time", "s");
    d2.appendSampledDimension(1.0, "x", "mV");
    Tag t3 = b.createTag("t3", "t", {1.0, 1.0}); t3.units({"mV", "V"}); t3.addReference(d2);   // dim1: mV vs s mismatch; dim2: V vs mV ok
    Tag t4 = b.createTag("t4", "t", {1.0, 1.0}); t4.units({"ms", "s"}); t4.addReference(d2);   // dim1 ok; dim2 mismatch
    auto r3 = valid::validate(t3); auto r4 = valid::validate(t4);
    std::cout << "t3 (first dim mismatched) errors=" << r3.getErrors().size() << "  t4 (second dim mismatched) errors=" << r4.getErrors().size() << std::endl;
    f.close();
}
