#include <nix.hpp>
#include <nix/util/dataAccess.hpp>
#include <iostream>
using namespace nix;
int main(int argc, char**argv) {
    File f = File::open("/tmp/probe/p5.h5", FileMode::Overwrite);
    Block b = f.createBlock("b", "t");
    DataArray da = b.createDataArray("a", "t", DataType::Double, NDSize({10, 5}));
    da.appendSampledDimension(1.0);
    da.appendSetDimension();
    try { DataView v = util::dataSlice(da, {2.0}, {4.0}); std::cout << "  slice extent " << v.dataExtent(); } catch (std::exception &e) { std::cout << "EXC " << e.what() << std::endl; }
    f.close();
}
