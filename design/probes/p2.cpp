#include <nix.hpp>
#include <nix/util/dataAccess.hpp>
#include <iostream>
#include <cmath>
#include <unistd.h>
#include <sys/wait.h>
using namespace nix;
template<typename F> void guarded(const char *what, F f) {
    std::cout << "--- " << what << std::endl;
    pid_t pid = fork();
    if (pid == 0) {
        try { f(); } catch (std::exception &e) { std::cout << "  EXC: " << e.what() << std::endl; }
        std::cout.flush();
        _exit(0);
    }
    int st; waitpid(pid, &st, 0);
    if (WIFSIGNALED(st)) std::cout << "  CRASH signal " << WTERMSIG(st) << std::endl;
}
int main() {
    guarded("C01 string array grown, read", []{
        File f = File::open("/tmp/probe/p2a.h5", FileMode::Overwrite);
        Block b = f.createBlock("b", "t");
        DataArray da = b.createDataArray("s", "t", DataType::String, NDSize({2}));
        std::vector<std::string> v = {"a","b"};
        da.setData(v, NDSize({0}));
        da.dataExtent(NDSize({4}));
        std::vector<std::string> out;
        da.getData(out);
        std::cout << "  read " << out.size() << " [" << out[2] << "]" << std::endl;
    });
    guarded("C03/C08/C12 duplicate DataFrame", []{
        File f = File::open("/tmp/probe/p2b.h5", FileMode::Overwrite);
        Block b = f.createBlock("b", "t");
        std::vector<Column> cols = {{"c1", "V", DataType::Double}};
        DataFrame d1 = b.createDataFrame("df", "type1", cols);
        std::string id1 = d1.id();
        try { DataFrame d2 = b.createDataFrame("df", "type2", cols); std::cout << "  second create did not throw" << std::endl; }
        catch (std::exception &e) { std::cout << "  second create threw: " << e.what() << std::endl; }
        DataFrame d = b.getDataFrame("df");
        std::cout << "  count=" << b.dataFrameCount() << " id same=" << (d.id()==id1) << " type=" << d.type() << std::endl;
    });
    guarded("C05 unspecified dim", []{
        File f = File::open("/tmp/probe/p2c.h5", FileMode::Overwrite);
        Block b = f.createBlock("b", "t");
        DataArray da = b.createDataArray("a", "t", DataType::Double, NDSize({10, 5}));
        da.appendSampledDimension(1.0);
        da.appendSetDimension();
        Tag t = b.createTag("t", "t", {2.0});
        t.extent({3.0});
        t.addReference(da);
        for (auto m : {RangeMatch::Inclusive, RangeMatch::Exclusive}) {
            try { DataView v = t.taggedData(0); NDSize o, c; util::getOffsetAndCount(t, da, o, c, m); std::cout << "  match=" << (int)m << " offset=" << o << " count=" << c; }
            catch (std::exception &e) { std::cout << "  EXC: " << e.what() << std::endl; }
        }
        // with sampled second dim with offset
        DataArray db = b.createDataArray("b2", "t", DataType::Double, NDSize({10, 5}));
        db.appendSampledDimension(1.0);
        db.appendSampledDimension(1.0, "", "", 3.0);
        for (auto m : {RangeMatch::Inclusive, RangeMatch::Exclusive}) {
            try { NDSize o, c; util::getOffsetAndCount(t, db, o, c, m); std::cout << "  offs-dim match=" << (int)m << " offset=" << o << " count=" << c; }
            catch (std::exception &e) { std::cout << "  offs-dim EXC: " << e.what() << std::endl; }
        }
    });
    guarded("C06 positions-only multitag default", []{
        File f = File::open("/tmp/probe/p2d.h5", FileMode::Overwrite);
        Block b = f.createBlock("b", "t");
        std::vector<double> data(100); for (int i=0;i<100;i++) data[i]=i;
        DataArray da = b.createDataArray("a", "t", data);
        da.appendSampledDimension(1.0);
        std::vector<double> pos = {5., 17., 42.};
        DataArray pa = b.createDataArray("p", "t", pos);
        pa.appendSetDimension();
        MultiTag mt = b.createMultiTag("mt", "t", pa);
        mt.addReference(da);
        for (int i = 0; i < 3; i++) {
            DataView v = mt.taggedData(i, 0);
            std::vector<double> out; v.getData(out);
            std::cout << "  default pos " << i << " -> n=" << out.size() << " first=" << out[0] << std::endl;
            std::vector<ndsize_t> idx = {(ndsize_t)i};
            DataView v2 = util::taggedData(mt, idx, da, RangeMatch::Inclusive)[0];
            v2.getData(out);
            std::cout << "  inclusive pos " << i << " -> n=" << out.size() << " first=" << out[0] << std::endl;
        }
        try { mt.taggedData(3, 0); std::cout << "  idx 3 no throw\n"; } catch (std::exception &e) { std::cout << "  idx 3 EXC: " << e.what() << std::endl; }
    });
    guarded("C08 multitag creation refused leaves half-built", []{
        File f = File::open("/tmp/probe/p2e.h5", FileMode::Overwrite);
        Block b = f.createBlock("b", "t");
        Block b2 = f.createBlock("b2", "t");
        std::vector<double> pos = {5., 17., 42.};
        DataArray pa = b2.createDataArray("p", "t", pos);
        try { b.createMultiTag("mt", "t", pa); std::cout << "  no throw\n"; } catch (std::exception &e) { std::cout << "  EXC: " << e.what() << std::endl; }
        std::cout << "  multiTagCount=" << b.multiTagCount() << " has=" << b.hasMultiTag("mt") << std::endl;
    });
    guarded("C08 metadata refused drops link", []{
        File f = File::open("/tmp/probe/p2f.h5", FileMode::Overwrite);
        Block b = f.createBlock("b", "t");
        Section s = f.createSection("s", "t");
        b.metadata(s);
        try { b.metadata("00000000-0000-0000-0000-000000000000"); } catch (std::exception &e) { std::cout << "  EXC: " << e.what() << std::endl; }
        std::cout << "  metadata still set=" << (b.metadata() != none) << std::endl;
    });
    guarded("C08 property mixed types", []{
        File f = File::open("/tmp/probe/p2g.h5", FileMode::Overwrite);
        Section s = f.createSection("s", "t");
        Property p = s.createProperty("p", std::vector<Variant>{Variant(1.0), Variant(2.0), Variant(3.0)});
        try { p.values(std::vector<Variant>{Variant(5.0), Variant("x")}); } catch (std::exception &e) { std::cout << "  EXC: " << e.what() << std::endl; }
        std::cout << "  valueCount=" << p.valueCount() << " v0=" << p.values()[0] << std::endl;
    });
    guarded("C13 append unsorted ticks / nonpositive interval / negative offset", []{
        File f = File::open("/tmp/probe/p2h.h5", FileMode::Overwrite);
        Block b = f.createBlock("b", "t");
        DataArray da = b.createDataArray("a", "t", DataType::Double, NDSize({3,3,3}));
        try { da.appendRangeDimension({3.0, 1.0, 2.0}); std::cout << "  unsorted ticks accepted\n"; } catch (std::exception &e) { std::cout << "  EXC: " << e.what() << std::endl; }
        try { da.appendSampledDimension(-1.0); std::cout << "  negative interval accepted\n"; } catch (std::exception &e) { std::cout << "  EXC: " << e.what() << std::endl; }
        try { SampledDimension sd = da.appendSampledDimension(1.0, "", "", -2.0); std::cout << "  offset readback=" << (sd.offset() ? *sd.offset() : 12345) << "\n"; } catch (std::exception &e) { std::cout << "  EXC: " << e.what() << std::endl; }
        std::cout << "  dimcount=" << da.dimensionCount() << std::endl;
    });
    guarded("C15 string column unwritten row", []{
        File f = File::open("/tmp/probe/p2i.h5", FileMode::Overwrite);
        Block b = f.createBlock("b", "t");
        std::vector<Column> cols = {{"c1", "V", DataType::Double}, {"s", "", DataType::String}};
        DataFrame d = b.createDataFrame("df", "type1", cols);
        d.rows(3);
        std::vector<std::string> out;
        d.readColumn("s", out, true);
        std::cout << "  read col n=" << out.size() << std::endl;
        auto row = d.readRow(1);
        std::cout << "  readRow ok " << row.size() << std::endl;
    });
    guarded("C16/C17 slice fewer entries", []{
        File f = File::open("/tmp/probe/p2j.h5", FileMode::Overwrite);
        Block b = f.createBlock("b", "t");
        DataArray da = b.createDataArray("a", "t", DataType::Double, NDSize({10, 5}));
        da.appendSampledDimension(1.0);
        da.appendSetDimension();
        DataView v = util::dataSlice(da, {2.0}, {4.0});
        std::cout << "  slice extent " << v.dataExtent();
    });
    guarded("C03 uuid-shaped names", []{
        File f = File::open("/tmp/probe/p2k.h5", FileMode::Overwrite);
        Block b = f.createBlock("b", "t");
        std::string nm = "aaaaaaaa-bbbb-cccc-dddd-eeeeeeeeeeee";
        DataArray da = b.createDataArray(nm, "t", DataType::Double, NDSize({10}));
        Tag t = b.createTag("t", "t", {2.0});
        t.addReference(da);
        std::cout << "  hasDataArray(name)=" << b.hasDataArray(nm) << " tag.hasReference(name)=" << t.hasReference(nm) << " tag.hasReference(da)=" << t.hasReference(da) << " refcount=" << t.referenceCount() << std::endl;
        DataArray r = t.getReference(nm);
        std::cout << "  getReference(name) found=" << (r != none) << std::endl;
    });
}
