#include <nix.hpp>
#include <iostream>
using namespace nix;
int main() {
    File f = File::open("/tmp/probe/p4.h5", FileMode::Overwrite);
    for (std::string nm : {"..", ".", "a b", " a", "A", "a", "ü", "x\ty"}) {
        try {
            Block b = f.createBlock(nm, "t");
            std::cout << "[" << nm << "] created; count=" << f.blockCount() << " has=" << f.hasBlock(nm) << " name=" << b.name() << std::endl;
        } catch (std::exception &e) { std::cout << "[" << nm << "] EXC " << e.what() << std::endl; }
    }
    for (ndsize_t i = 0; i < f.blockCount(); i++) { try { std::cout << i << ": " << f.getBlock(i).name() << std::endl; } catch (std::exception &e) { std::cout << i << " EXC " << e.what() << std::endl; } }
    Block b = f.getBlock("a");
    for (std::string nm : {"..", "."}) {
        try {
            DataArray d = b.createDataArray(nm, "t", DataType::Double, NDSize({2}));
            std::cout << "da[" << nm << "] created; count=" << b.dataArrayCount() << " has=" << b.hasDataArray(nm) << std::endl;
        } catch (std::exception &e) { std::cout << "da[" << nm << "] EXC " << e.what() << std::endl; }
    }
    std::cout << "block a name now: "; try { std::cout << b.name() << " id " << b.id() << std::endl; } catch (std::exception &e) { std::cout << "EXC " << e.what() << std::endl; }
}
