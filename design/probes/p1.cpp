#include <nix.hpp>
#include <nix/util/dataAccess.hpp>
#include <iostream>
#include <cmath>
using namespace nix;
int main() {
    File f = File::open("/tmp/probe/p1.h5", FileMode::Overwrite);
    Block b = f.createBlock("b", "t");
    // C07: sampled round trip
    DataArray da = b.createDataArray("a", "t", DataType::Double, NDSize({200}));
    SampledDimension sd = da.appendSampledDimension(0.1);
    int bad = 0;
    for (int i = 0; i < 100; i++) {
        double p = sd.positionAt(i);
        auto ge = sd.indexOf(p, PositionMatch::GreaterOrEqual);
        auto le = sd.indexOf(p, PositionMatch::LessOrEqual);
        auto eq = sd.indexOf(p, PositionMatch::Equal);
        if (!ge || *ge != (ndsize_t)i || !le || *le != (ndsize_t)i || !eq || *eq != (ndsize_t)i) {
            bad++;
            if (bad < 6) std::cout << "i=" << i << " ge=" << (ge? (long)*ge : -1) << " le=" << (le?(long)*le:-1) << " eq=" << (eq?(long)*eq:-1) << "\n";
        }
    }
    std::cout << "C07 sampled 0.1 roundtrip failures: " << bad << "/100\n";
    // C18
    std::cout.precision(17);
    std::cout << "mV->V " << util::getSIScaling("mV","V") << " ms->us " << util::getSIScaling("ms","us") << " us->ms " << util::getSIScaling("us","ms")<< "\n";
    try { std::cout << "mmol^2->mol^2 " << util::getSIScaling("mmol^2","mol^2") << "\n"; } catch (std::exception &e) { std::cout << "mmol^2 EXC " << e.what() << "\n"; }
    try { std::cout << "mm^2->m^2 " << util::getSIScaling("mm^2","m^2") << "\n"; } catch (std::exception &e) { std::cout << "EXC " << e.what() << "\n"; }
    try { std::cout << "mm^2->um^2 " << util::getSIScaling("mm^2","um^2") << "\n"; } catch (std::exception &e) { std::cout << "EXC " << e.what() << "\n"; }
    try { std::cout << "m^2->mm^2 " << util::getSIScaling("m^2","mm^2") << "\n"; } catch (std::exception &e) { std::cout << "EXC " << e.what() << "\n"; }
    try { std::cout << "mHz->Hz " << util::getSIScaling("mHz","Hz") << "\n"; } catch (std::exception &e) { std::cout << "EXC " << e.what() << "\n"; }
    try { std::cout << "mHz^2->Hz^2 " << util::getSIScaling("mHz^2","Hz^2") << "\n"; } catch (std::exception &e) { std::cout << "EXC " << e.what() << "\n"; }
    std::string p,u,pw; util::splitUnit("mol^2", p,u,pw); std::cout << "split mol^2: [" << p << "][" << u << "][" << pw << "]\n";
    util::splitUnit("mHz^2", p,u,pw); std::cout << "split mHz^2: [" << p << "][" << u << "][" << pw << "]\n";
    util::splitUnit("cd", p,u,pw); std::cout << "split cd: [" << p << "][" << u << "][" << pw << "]\n";
    util::splitUnit("mcd", p,u,pw); std::cout << "split mcd: [" << p << "][" << u << "][" << pw << "]\n";
    util::splitUnit("dam", p,u,pw); std::cout << "split dam: [" << p << "][" << u << "][" << pw << "]\n";
    util::splitUnit("Pa", p,u,pw); std::cout << "split Pa: [" << p << "][" << u << "][" << pw << "]\n";
    util::splitUnit("hPa", p,u,pw); std::cout << "split hPa: [" << p << "][" << u << "][" << pw << "]\n";
    util::splitUnit("mmol", p,u,pw); std::cout << "split mmol: [" << p << "][" << u << "][" << pw << "]\n";
    util::splitUnit("Gy", p,u,pw); std::cout << "split Gy: [" << p << "][" << u << "][" << pw << "]\n";
    util::splitUnit("mGy", p,u,pw); std::cout << "split mGy: [" << p << "][" << u << "][" << pw << "]\n";
    util::splitUnit("ms^-1", p,u,pw); std::cout << "split ms^-1: [" << p << "][" << u << "][" << pw << "]\n";
    std::cout << "isScalable(mol^2, m^2)=" << util::isScalable("mol^2","m^2") << " isSI(min)=" << util::isSIUnit("min") << "\n";
    f.close();
}
