#include <nix.hpp>
#include <iostream>
#include <unistd.h>
#include <signal.h>
#include <sys/wait.h>
#include <hdf5.h>
using namespace nix;
int main() {
    unlink("/tmp/probe/p3.h5");
    pid_t pid = fork();
    if (pid == 0) {
        File f = File::open("/tmp/probe/p3.h5", FileMode::Overwrite);
        Block b = f.createBlock("b", "t");
        std::vector<double> d(1000, 3.5);
        DataArray da = b.createDataArray("a", "t", d);
        Section s = f.createSection("s","t");
        s.createProperty("p", Variant(42.0));
        bool ok = f.flush();
        std::cout << "child flushed " << ok << std::endl;
        kill(getpid(), SIGKILL);
    }
    int st; waitpid(pid, &st, 0);
    std::cout << "child signaled=" << WIFSIGNALED(st) << std::endl;
    for (auto m : {FileMode::ReadOnly, FileMode::ReadWrite}) {
        try {
            File f = File::open("/tmp/probe/p3.h5", m);
            std::cout << "reopen mode " << (int)m << " blocks=" << f.blockCount() << " da ok=" << (f.getBlock("b").getDataArray("a").dataExtent()[0]) << " prop=" << f.getSection("s").getProperty("p").values()[0] << std::endl;
            f.close();
        } catch (std::exception &e) { std::cout << "reopen EXC " << e.what() << std::endl; }
    }
    // close with live handles then TRUNC reopen in same process
    {
        File f = File::open("/tmp/probe/p3b.h5", FileMode::Overwrite);
        Block b = f.createBlock("b", "t");
        std::vector<double> d(10, 1.0);
        DataArray da = b.createDataArray("a", "t", d);
        Dimension dim = da.appendSetDimension();
        Section s = f.createSection("s","t");
        Property p = s.createProperty("p", Variant(42.0));
        f.close();
        try { std::cout << "after close da.name: " << da.name() << std::endl; } catch (std::exception &e) { std::cout << "after close EXC: " << e.what() << std::endl; }
        try { std::cout << "after close p.name: " << p.name() << std::endl; } catch (std::exception &e) { std::cout << "after close EXC: " << e.what() << std::endl; }
        try { std::cout << "after close f.blockCount: " << f.blockCount() << std::endl; } catch (std::exception &e) { std::cout << "after close EXC: " << e.what() << std::endl; }
        hid_t h = H5Fopen("/tmp/probe/p3b.h5", H5F_ACC_RDWR, H5P_DEFAULT);
        std::cout << "raw reopen RDWR hid valid=" << (h >= 0) << std::endl;
        if (h>=0) H5Fclose(h);
        try { File g = File::open("/tmp/probe/p3b.h5", FileMode::Overwrite); std::cout << "overwrite reopen ok blocks=" << g.blockCount() << std::endl; } catch (std::exception &e) { std::cout << "overwrite EXC " << e.what() << std::endl; }
    }
}
