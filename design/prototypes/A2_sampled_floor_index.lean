set_option autoImplicit false
open Std

section
variable {α : Type} [LE α] [LT α] [DecidableLE α] [DecidableLT α]

/-- down-correction: while g > 0 ∧ x g > p do g := g - 1 -/
def corrDown (x : Nat → α) (p : α) : Nat → Nat
  | 0 => 0
  | g+1 => if p < x (g+1) then corrDown x p g else g+1

/-- up-correction with fuel: while x (g+1) ≤ p do g := g + 1 -/
def corrUp (x : Nat → α) (p : α) : Nat → Nat → Option Nat
  | 0, _ => none
  | fuel+1, g => if x (g+1) ≤ p then corrUp x p fuel (g+1) else some g

/-- largest i with x i ≤ p, from an arbitrary estimate `est` (the rounded quotient) -/
def floorIndex (x : Nat → α) (p : α) (est : Nat) (fuel : Nat) : Option Nat :=
  if p < x 0 then none else corrUp x p fuel (corrDown x p est)
end

section
variable {α : Type} [LE α] [LT α] [DecidableLE α] [DecidableLT α] [IsLinearOrder α] [LawfulOrderLT α]

def StrictMonoN (x : Nat → α) : Prop := ∀ i j, i < j → x i < x j

theorem corrDown_post (x : Nat → α) (p : α) (est : Nat) (h0 : ¬ p < x 0) :
    ¬ p < x (corrDown x p est) := by
  induction est with
  | zero => simpa [corrDown] using h0
  | succ g ih =>
    simp only [corrDown]; split
    · exact ih
    · assumption

theorem corrUp_post (x : Nat → α) (p : α) (fuel g r : Nat) (hg : ¬ p < x g)
    (h : corrUp x p fuel g = some r) : ¬ p < x r ∧ p < x (r+1) := by
  induction fuel generalizing g with
  | zero => simp [corrUp] at h
  | succ f ih =>
    simp only [corrUp] at h
    split at h
    · rename_i hle
      exact ih (g+1) (by exact Std.not_lt.mpr hle) h
    · rename_i hnle
      cases h
      exact ⟨hg, Std.not_le.mp hnle⟩

/-- the property's rule for LessOrEqual, for ANY estimate and ANY strictly increasing axis -/
theorem floorIndex_spec (x : Nat → α) (hx : StrictMonoN x) (p : α) (est fuel r : Nat)
    (h : floorIndex x p est fuel = some r) :
    x r ≤ p ∧ ∀ j, x j ≤ p → j ≤ r := by
  unfold floorIndex at h
  split at h
  · cases h
  · rename_i h0
    have hp := corrUp_post x p fuel _ r (corrDown_post x p est h0) h
    refine ⟨Std.not_lt.mp hp.1, ?_⟩
    intro j hj
    apply Nat.le_of_not_lt
    intro hlt   -- r < j, so r+1 ≤ j, x (r+1) ≤ x j ≤ p < x (r+1)
    have h1 : x (r+1) ≤ x j := by
      rcases Nat.lt_or_eq_of_le (Nat.succ_le_of_lt hlt) with h2 | h2
      · exact Std.le_of_lt (hx _ _ h2)
      · have h3 : r + 1 = j := h2
        rw [h3]; exact Std.le_refl _
    exact Std.not_lt.mpr (Std.le_trans h1 hj) hp.2

theorem floorIndex_none_of_lt (x : Nat → α) (p : α) (est fuel : Nat) (h : p < x 0) :
    floorIndex x p est fuel = none := by simp [floorIndex, h]
end
#print axioms floorIndex_spec

-- non-vacuity, deliberately bad estimates
example : floorIndex (fun i : Nat => (i : Rat) / 10) (3/10) 7 100 = some 3 := by decide +kernel
example : floorIndex (fun i : Nat => (3 * i + 1 : Int)) 10 0 100 = some 3 := by decide
example : floorIndex (fun i : Nat => (3 * i + 1 : Int)) 10 50 100 = some 3 := by decide
example : StrictMonoN (fun i : Nat => (3 * i + 1 : Int)) := by intro i j h; simp only; omega
#eval floorIndex (fun i : Nat => i.toFloat * 0.1 + 0.0) (3.0*0.1) (Float.ceil ((3.0*0.1 - 0.0)/0.1)).toUInt64.toNat 1000
