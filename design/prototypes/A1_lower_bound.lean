set_option autoImplicit false
open Std

variable {α : Type} [LE α] [LT α] [DecidableLE α] [DecidableLT α] [IsLinearOrder α] [LawfulOrderLT α]

/-- std::lower_bound: number of leading elements < p (index of first element ≥ p) -/
def lowerBound (p : α) : List α → Nat
  | [] => 0
  | t :: ts => if t < p then lowerBound p ts + 1 else 0

def Sorted (l : List α) : Prop := l.Pairwise (· < ·)

theorem lowerBound_le_length (p : α) (l : List α) : lowerBound p l ≤ l.length := by
  induction l with
  | nil => simp [lowerBound]
  | cons t ts ih => simp only [lowerBound]; split <;> simp <;> omega

/-- all elements before lowerBound are < p -/
theorem lt_of_lt_lowerBound (p : α) (l : List α) (hs : Sorted l) (i : Nat) (hi : i < l.length) :
    i < lowerBound p l ↔ l[i] < p := by
  induction l generalizing i with
  | nil => simp at hi
  | cons t ts ih =>
    have hs' : Sorted ts := (List.pairwise_cons.mp hs).2
    have hall := (List.pairwise_cons.mp hs).1
    simp only [lowerBound]
    split
    · rename_i htp
      cases i with
      | zero => simp [htp]
      | succ j =>
        simp only [List.length_cons, Nat.add_lt_add_iff_right] at hi
        simp [ih hs' j hi]
    · rename_i htp
      cases i with
      | zero => simp [htp]
      | succ j =>
        simp only [List.length_cons, Nat.add_lt_add_iff_right] at hi
        have h1 : t < ts[j] := hall _ (List.getElem_mem hi)
        simp only [Nat.not_lt_zero, List.getElem_cons_succ, false_iff]
        intro h2
        exact htp (Std.lt_trans h1 h2)
#print axioms lt_of_lt_lowerBound
