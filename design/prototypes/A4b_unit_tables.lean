set_option autoImplicit false

def prefixes : List String := ["Y","Z","E","P","T","G","M","k","h","da","d","c","m","u","n","p","f","a","z","y"]
def unitsFixed : List String := ["mol","m","g","s","A","K","cd","Hz","N","Pa","J","Wb","W","C","V","F","Sv","S","T","H","lm","lx","Bq","Gy","kat","l","L","Ohm","%","dB","rad"]
def unitsOld : List String := ["m","g","s","A","K","mol","cd","Hz","N","Pa","J","W","C","V","F","S","Wb","T","H","lm","lx","Bq","Gy","Sv","kat","l","L","Ohm","%","dB","rad"]

/-- first alternative (in list order) that is a prefix of `s`: boost/Perl leftmost-first at position 0 -/
def firstAlt (alts : List String) (s : List Char) : Option (List Char × List Char) :=
  match alts with
  | [] => none
  | a :: as => if a.toList.isPrefixOf s then some (a.toList, s.drop a.toList.length) else firstAlt as s

/-- regex_match of the whole string against  PREFIX UNIT  (with backtracking over both alternations) -/
def matchPU (units : List String) (s : List Char) : Bool :=
  prefixes.any fun p => p.toList.isPrefixOf s && units.any fun u => s.drop p.toList.length == u.toList

/-- the prefix_and_unit branch of splitUnit: search prefix (position 0 by construction), rest is the unit -/
def splitPU (units : List String) (s : List Char) : Option (List Char × List Char) :=
  if matchPU units s then firstAlt prefixes s else none

/-- unit_and_power branch: regex_search(UNITS) leftmost-first at position 0 -/
def splitUP (units : List String) (s : List Char) : Option (List Char × List Char) := firstAlt units s

def allPU (units : List String) : List (String × String) := prefixes.flatMap fun p => units.map fun u => (p, u)

-- every prefix+unit string is split back into exactly that prefix and unit
theorem splitPU_roundtrip : (allPU unitsFixed).all (fun (p, u) => splitPU unitsFixed (p.toList ++ u.toList) == some (p.toList, u.toList)) = true := by
  decide +kernel

-- unit^power: the unit found by the leftmost-first search is the whole unit (fixed order) ...
theorem splitUP_fixed : unitsFixed.all (fun u => splitUP unitsFixed (u.toList ++ "^2".toList) == some (u.toList, "^2".toList)) = true := by
  decide +kernel
-- ... and is NOT with the pinned order (witnesses mol, Wb, Sv)
theorem splitUP_old_fails : unitsOld.all (fun u => splitUP unitsOld (u.toList ++ "^2".toList) == some (u.toList, "^2".toList)) = false := by
  decide +kernel
#eval unitsOld.filter (fun u => !(splitUP unitsOld (u.toList ++ "^2".toList) == some (u.toList, "^2".toList)))
#print axioms splitPU_roundtrip
