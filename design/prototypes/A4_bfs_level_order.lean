set_option autoImplicit false

inductive Tree where
  | node (v : Nat) (cs : List Tree)

namespace Tree
def val : Tree → Nat | node v _ => v
def children : Tree → List Tree | node _ cs => cs
mutual
def size : Tree → Nat
  | node _ cs => 1 + sizeL cs
def sizeL : List Tree → Nat
  | [] => 0
  | t :: ts => size t + sizeL ts
end
theorem size_eq (t : Tree) : t.size = 1 + sizeL t.children := by cases t; simp [size, children]
theorem sizeL_append (a b : List Tree) : sizeL (a ++ b) = sizeL a + sizeL b := by
  induction a with
  | nil => simp [sizeL]
  | cons t ts ih => simp [sizeL, ih]; omega
end Tree
open Tree

def qsize (q : List (Tree × Nat)) : Nat := sizeL (q.map (·.1))

theorem qsize_append (a b : List (Tree × Nat)) : qsize (a ++ b) = qsize a + qsize b := by
  simp [qsize, sizeL_append]

theorem qsize_children (t : Tree) (d : Nat) : qsize (t.children.map (·, d)) = sizeL t.children := by
  simp [qsize, Function.comp_def]

/-- queue search as in Section::findSections: entries carry their depth; children enqueued iff depth < maxd -/
def bfsQ (maxd : Nat) : List (Tree × Nat) → List Nat
  | [] => []
  | (t, d) :: q =>
      t.val :: bfsQ maxd (q ++ (if d < maxd then t.children.map (·, d+1) else []))
termination_by q => qsize q
decreasing_by
  simp only [qsize_append]
  have h1 : qsize ((t, d) :: q) = t.size + qsize q := by simp [qsize, sizeL]
  rw [h1, size_eq]
  split
  · rw [qsize_children]; omega
  · simp [qsize, sizeL]; omega

/-- level-order spec: all nodes of the forest level by level, `n` levels -/
def levels : Nat → List Tree → List Nat
  | 0, _ => []
  | n+1, ts => ts.map Tree.val ++ levels n (ts.flatMap Tree.children)

def tag (d : Nat) (ts : List Tree) : List (Tree × Nat) := ts.map (·, d)

theorem levels_nil (n : Nat) : levels n [] = [] := by
  induction n with
  | zero => rfl
  | succ n ih => simp [levels, ih]


theorem bfsQ_nil (maxd : Nat) : bfsQ maxd [] = [] := by simp [bfsQ]
theorem bfsQ_cons (maxd : Nat) (t : Tree) (d : Nat) (q : List (Tree × Nat)) :
    bfsQ maxd ((t, d) :: q) = t.val :: bfsQ maxd (q ++ (if d < maxd then t.children.map (·, d+1) else [])) := by
  rw [bfsQ]

/-- Lemma A: consuming the rest of level d appends its children behind what is already queued of level d+1 -/
theorem bfsQ_level (maxd d : Nat) (cur nxt : List Tree) :
    bfsQ maxd (tag d cur ++ tag (d+1) nxt)
      = cur.map Tree.val ++ bfsQ maxd (tag (d+1) (nxt ++ (if d < maxd then cur.flatMap Tree.children else []))) := by
  induction cur generalizing nxt with
  | nil => simp [tag]
  | cons t ts ih =>
    simp only [tag, List.map_cons, List.cons_append, bfsQ_cons]
    by_cases h : d < maxd
    · simp only [h, if_true]
      have := ih (nxt ++ t.children)
      simp only [tag, h, if_true, List.map_append, List.append_assoc] at this
      simp only [List.append_assoc, List.flatMap_cons, List.map_append]
      rw [this]
    · simp only [h, if_false, List.append_nil]
      have := ih nxt
      simp only [tag, h, if_false, List.append_nil] at this
      rw [this]

/-- Lemma B: a queue holding exactly level d yields the level-order listing of the remaining levels -/
theorem bfsQ_eq_levels (maxd : Nat) (k : Nat) : ∀ (d : Nat) (ts : List Tree), d + k = maxd →
    bfsQ maxd (tag d ts) = levels (k + 1) ts := by
  induction k with
  | zero =>
    intro d ts hd
    have h : ¬ d < maxd := by omega
    have := bfsQ_level maxd d ts []
    simp only [tag, List.map_nil, List.append_nil, h, if_false, bfsQ_nil] at this
    simp [levels, tag, this]
  | succ k ih =>
    intro d ts hd
    have h : d < maxd := by omega
    have := bfsQ_level maxd d ts []
    simp only [tag, List.map_nil, List.append_nil, h, if_true, List.nil_append] at this
    have ih' := ih (d+1) (ts.flatMap Tree.children) (by omega)
    simp only [tag] at ih'
    simp only [tag, this, ih']
    rfl

/-- Section::findSections(filter, maxd) on start node `t`: children start at depth 1, start node excluded -/
def findSections (filter : Nat → Bool) (maxd : Nat) (t : Tree) : List Nat :=
  (if 0 < maxd then bfsQ maxd (tag 1 t.children) else []).filter filter

theorem findSections_eq_levelOrder (filter : Nat → Bool) (maxd : Nat) (t : Tree) :
    findSections filter maxd t = (levels maxd t.children).filter filter := by
  unfold findSections
  cases maxd with
  | zero => simp [levels]
  | succ m =>
    simp only [Nat.zero_lt_succ, if_true]
    rw [bfsQ_eq_levels (m+1) m 1 t.children (by omega)]
#print axioms findSections_eq_levelOrder
