set_option autoImplicit false

abbrev ObjId := Nat

structure Obj where
  attrs : List (String × String) := []
  links : List (String × ObjId) := []      -- creation order
  deriving Repr, DecidableEq

structure Store where
  objs : List Obj            -- ObjId = position; objects are never removed (handles keep them alive)
  root : ObjId := 0
  writable : Bool := true
  deriving Repr, DecidableEq

namespace Store
def obj? (s : Store) (o : ObjId) : Option Obj := s.objs[o]?
def linksOf (s : Store) (o : ObjId) : List (String × ObjId) := (s.obj? o).elim [] (·.links)

/-- `o` is reachable from `a` by following links -/
inductive Reach (s : Store) : ObjId → ObjId → Prop
  | refl (a : ObjId) : Reach s a a
  | step {a b c : ObjId} (n : String) : Reach s a b → (n, c) ∈ s.linksOf b → Reach s a c

/-- H5Group::removeAllLinks: every link to `t`, wherever it is -/
def removeAllLinks (s : Store) (t : ObjId) : Store :=
  { s with objs := s.objs.map fun ob => { ob with links := ob.links.filter (·.2 != t) } }

theorem linksOf_removeAllLinks (s : Store) (t o : ObjId) :
    (s.removeAllLinks t).linksOf o = (s.linksOf o).filter (·.2 != t) := by
  simp only [linksOf, obj?, removeAllLinks, List.getElem?_map]
  cases s.objs[o]? <;> simp

/-- C04 core: after delete, the target is unreachable from anywhere else -/
theorem removeAllLinks_unreachable (s : Store) (t a : ObjId) (h : Reach (s.removeAllLinks t) a t) :
    a = t := by
  cases h with
  | refl => rfl
  | step n _ hm =>
    rw [linksOf_removeAllLinks] at hm
    simp at hm

/-- C04 frame: every other object keeps its attributes, and its links are the old ones minus those to t -/
theorem removeAllLinks_frame (s : Store) (t o : ObjId) (ob : Obj) (h : s.obj? o = some ob) :
    (s.removeAllLinks t).obj? o = some { ob with links := ob.links.filter (·.2 != t) } := by
  simp only [obj?, removeAllLinks, List.getElem?_map] at *
  simp [h]

/-- reference count = number of links pointing to the object -/
def refCount (s : Store) (t : ObjId) : Nat :=
  (s.objs.map fun ob => (ob.links.filter (·.2 == t)).length).sum

end Store
#print axioms Store.removeAllLinks_unreachable
